"""C06 - PEPs are probabilities, monotone in score, aligned with their PSM; alternative q-value estimators (E1).

Alphabet: deterministic two-component score sets from quantile grids (scipy.stats.norm.ppf on regular grids, no RNG):
null fraction pi0 x separation x (targets, decoys) x tie structure = 81 score sets; every enumerated input order
(sorted descending / ascending, three blocks permuted and each optionally reversed, two riffles); algorithms
PEP {qvality, kde_nnls, hist_nnls} through mokapot.peps.peps_from_scores and q-value {tdc, from_peps, from_counts}
through mokapot.qvalues.qvalues_from_scores.  Second part: assign_confidence(peps_algorithm=...) on a generated
table; the posterior_error_prob of every written row must equal the stand-alone estimate for that row's score.

Oracle (from the statement, no reference implementation): one value per PSM; PEPs finite and in [0,1]; values never
decrease as the score worsens; equal scores -> equal values; alignment as the metamorphic relation
f(x o pi) = f(x) o pi for every enumerated order pi.
"""

from __future__ import annotations

import itertools
import shutil
import warnings

from pathlib import Path

import numpy as np
import pandas as pd

from mc.core import Acc, Violation, worker_scratch, exc_signature
from mc.viocap import report

PROPERTY = "C06"
SIZE_MODULES = ['mokapot.peps', 'mokapot.qvalues', 'mokapot.confidence']  # see mc.runner._sized_passes
LEVEL = "exploration"
RULE = (
    "case = (score set: pi0, separation, #targets, #decoys, rounding; algorithm; input order) - every combination of "
    "the listed values is executed. Non-trivial iff the input is not pre-sorted in descending score order (only then "
    "can a value be attached to the wrong PSM); distinct by (score set, algorithm, order). Confidence part: case = "
    "(score set, PEP algorithm, file row order, format), always non-trivial (file order is never the score order)"
)
ASSUMPTIONS = [
    "score sets are two-component normal quantile grids (50-300 PSMs per class); nothing is claimed about other "
    "distribution shapes or about fewer than 50 targets/decoys",
    "monotonicity is demanded up to 1e-12 (np.interp may overshoot a knot by one ulp), ties must be exactly equal, "
    "alignment f(x o pi) = f(x) o pi up to 1e-9 (KDE sums are evaluated in input order)",
    "alternative q-values: +inf is accepted (from_counts returns inf for every PSM when the best PSM is a decoy); "
    "NaN and negative values are not",
    "for from_counts the alignment relation is demanded only on score sets in which no target shares its score with "
    "a decoy: otherwise its value depends on which tied PSM its internal sort puts first (counted as "
    "from_counts_tied_order_dependent), which the statement does not exclude; all other clauses (monotone, equal on "
    "ties, one value per PSM, non-negative) are demanded for every order also there",
    "confidence part: the stand-alone estimate is computed by the same estimator on the level's rows listed in "
    "descending score order (the order in which confidence.py hands them over), so this part tests the alignment of "
    "the written column, not the estimator",
]

PI0 = (0.3, 0.5, 0.8)
SEP = (1.0, 2.0, 4.0)
SIZES = ((50, 50), (200, 100), (100, 300))
ROUND = (0.0, 0.1, 0.5)
PEP_ALGS = ("qvality", "kde_nnls", "hist_nnls")
Q_ALGS = ("tdc", "from_peps", "from_counts")
MONO_TOL = 1e-12
ALIGN_TOL = 1e-9


def _scratch():
    """Per-case scratch directory (under the run's scratch root; a private temp dir for stand-alone replays)."""
    import os
    import tempfile

    if os.environ.get("VERIF_SCRATCH"):
        return worker_scratch().sub()
    return Path(tempfile.mkdtemp(prefix="mokaverif_replay_"))


# ---------------------------------------------------------------------------------------------
# generators
# ---------------------------------------------------------------------------------------------
def _grid(n, off=0.5):
    from scipy.stats import norm

    return norm.ppf((np.arange(n) + off) / n)


def mixed_ties(s, lab):
    """Is there a score shared by a target and a decoy?"""
    return bool(set(s[lab].tolist()) & set(s[~lab].tolist()))


def score_set(pi0, sep, nt, nd, rnd):
    """Targets = pi0*nt nulls ~ N(0,1) quantiles + the rest ~ N(sep,1) quantiles; decoys = N(0,1) quantiles on a grid
    shifted by 0.2/nd (so that the un-rounded sets have pairwise distinct scores - asserted in run()).
    Returned in descending score order (stable; the canonical order x)."""
    if pi0 < 0:
        # mixture shape with a group of targets scoring *below* the bulk of the decoys (|pi0| of the targets at -3
        # sigma), 40 % nulls and the rest correct: the target/decoy density ratio is not monotone at the low end
        low = int(round(-pi0 * nt))
        n0 = int(round(0.4 * nt))
        s = np.concatenate([_grid(low, 0.4) * 0.5 - 3.0, _grid(n0), _grid(nt - n0 - low) + sep, _grid(nd, 0.3)])
    else:
        n0 = int(round(pi0 * nt))
        s = np.concatenate([_grid(n0), _grid(nt - n0) + sep, _grid(nd, 0.3)])
    lab = np.r_[np.ones(nt, dtype=bool), np.zeros(nd, dtype=bool)]
    if rnd:
        s = np.round(s / rnd) * rnd
        s = np.round(s, 6) + 0.0
    o = np.argsort(-s, kind="stable")
    return s[o].astype(float), lab[o]


def all_orders():
    """Names of the enumerated input orders (distinct as permutations for n >= 6)."""
    out = ["desc", "asc"]
    for perm in itertools.permutations(range(3)):
        for mask in itertools.product((0, 1), repeat=3):
            if perm == (0, 1, 2) and mask == (0, 0, 0):
                continue  # = desc
            if perm == (2, 1, 0) and mask == (1, 1, 1):
                continue  # = asc
            out.append("blk" + "".join(map(str, perm)) + "r" + "".join(map(str, mask)))
    out += ["riffle", "riffle-rev"]
    # label-dependent orders: each class ranked among itself, the interleaving of the classes is not
    out += ["t-then-d", "d-then-t", "t-d-runs"]
    return out


QUICK_ORDERS = ["desc", "asc", "blk012r100", "blk021r000", "blk102r011", "blk120r000", "blk120r101", "blk201r010",
                "blk210r000", "blk210r110", "blk021r111", "riffle", "t-then-d", "d-then-t", "t-d-runs"]


def order_index(name, n, lab=None):
    """Permutation of the descending-score order 0..n-1 (`lab`: the labels in that order, for the label-dependent ones)."""
    idx = np.arange(n)
    if name in ("t-then-d", "d-then-t", "t-d-runs"):
        lab = np.asarray(lab, dtype=bool)
        t, d = idx[lab], idx[~lab]
        if name == "t-then-d":
            return np.r_[t, d]
        if name == "d-then-t":
            return np.r_[d, t]
        parts, k = [], 7  # alternating ranked runs of 7 targets / 7 decoys
        for a in range(0, max(len(t), len(d)), k):
            parts += [t[a:a + k], d[a:a + k]]
        return np.concatenate(parts)
    if name == "desc":
        return idx
    if name == "asc":
        return idx[::-1].copy()
    if name == "riffle":
        return np.r_[idx[0::2], idx[1::2]]
    if name == "riffle-rev":
        return np.r_[idx[1::2][::-1], idx[0::2]]
    perm = [int(c) for c in name[3:6]]
    mask = [int(c) for c in name[7:10]]
    cuts = [0, n // 3, (2 * n) // 3, n]
    blocks = [idx[cuts[i]:cuts[i + 1]] for i in range(3)]
    parts = []
    for b, m in zip(perm, mask):
        parts.append(blocks[b][::-1] if m else blocks[b])
    return np.concatenate(parts)


def call(alg, s, lab):
    with warnings.catch_warnings():
        warnings.simplefilter("ignore")
        if alg in PEP_ALGS:
            from mokapot.peps import peps_from_scores

            return peps_from_scores(s, lab, alg)
        from mokapot.qvalues import qvalues_from_scores

        return qvalues_from_scores(s, lab, alg)


# ---------------------------------------------------------------------------------------------
# oracle on one output vector
# ---------------------------------------------------------------------------------------------
def clauses(alg, s, v):
    """Clauses that concern one call: returns list of (signature suffix, message)."""
    kind = "pep" if alg in PEP_ALGS else "q"
    bad = []
    try:
        v = np.asarray(v, dtype=float)
    except Exception:
        return [("wrong-shape", f"returned {type(v).__name__}, not one number per PSM")], None
    if v.shape != s.shape:
        return [("wrong-shape", f"returned shape {v.shape} for {s.shape[0]} PSMs")], None
    if kind == "pep":
        if not np.all(np.isfinite(v)):
            bad.append(("not-finite", f"{int((~np.isfinite(v)).sum())} PEPs are not finite"))
        elif v.min() < 0.0 or v.max() > 1.0:
            bad.append(("out-of-range", f"PEPs outside [0,1]: min {v.min()!r} max {v.max()!r}"))
    else:
        if np.any(np.isnan(v)):
            bad.append(("nan", f"{int(np.isnan(v).sum())} q-values are NaN"))
        elif np.any(v < 0):
            bad.append(("negative", f"q-value {v.min()!r} < 0"))
    if bad:
        return bad, v
    o = np.argsort(-s, kind="stable")
    ss, vv = s[o], v[o]
    # never decrease as the score worsens
    a, b = vv[:-1], vv[1:]
    worse = ss[1:] < ss[:-1]
    dec = worse & ~(b >= a - MONO_TOL)
    if np.any(dec):
        i = int(np.argmax(dec))
        bad.append(("not-monotone", f"value decreases from {a[i]!r} (score {ss[i]!r}) to {b[i]!r} (worse score "
                    f"{ss[i + 1]!r}); {int(dec.sum())} such steps"))
    # equal scores -> equal values (exact: the value is a function of the score)
    tie = ~worse
    neq = tie & ~((a == b))
    if np.any(neq):
        i = int(np.argmax(neq))
        bad.append(("ties-differ", f"equal scores {ss[i]!r} received {a[i]!r} and {b[i]!r}"))
    return bad, v


def same(a, b, tol):
    with np.errstate(invalid="ignore"):
        return (a == b) | (np.abs(a - b) <= tol)


def check_case(case, acc, base=None, data=None):
    """One (score set, algorithm, order).  Returns (base output in canonical order, outcome hash)."""
    alg, oname = case["alg"], case["order"]
    kind = "pep" if alg in PEP_ALGS else "q"
    s, lab = data if data is not None else score_set(case["pi0"], case["sep"], case["nt"], case["nd"], case["round"])

    def viol(suffix, msg, expected=None, observed=None):
        report(acc, Violation(f"{alg}-{kind}-{suffix}" if not suffix.startswith("raises") else f"{alg}-{suffix}",
                              f"{alg} on {len(s)} PSMs ({case['nt']} targets, {case['nd']} decoys, pi0 {case['pi0']}, "
                              f"separation {case['sep']}, rounding {case['round']}), input order {oname}: {msg}",
                              case, expected, observed), size=len(s) * 100 + all_orders().index(oname))

    if base is None:
        try:
            base = np.asarray(call(alg, s.copy(), lab.copy()), dtype=float)
        except BaseException as e:
            if oname == "desc":
                viol("raises:" + exc_signature(e), f"raised {type(e).__name__}: {e}")
                return None, "raised"
            base = None
        if oname == "desc":
            bad, v = clauses(alg, s, base)
            for suffix, msg in bad:
                viol(suffix, msg, observed=None if v is None else v[:12])
            return (base if not any(x[0] == "wrong-shape" for x in bad) else None), ("bad" if bad else "ok")
    pi = order_index(oname, len(s), lab)
    sp, lp = s[pi].copy(), lab[pi].copy()
    try:
        out = call(alg, sp, lp)
    except BaseException as e:
        viol("raises:" + exc_signature(e), f"raised {type(e).__name__}: {e}")
        return base, "raised"
    if not (np.array_equal(sp, s[pi]) and np.array_equal(lp, lab[pi])):
        viol("modifies-input", "the estimator changed its input arrays")
    bad, v = clauses(alg, sp, out)
    if v is None or any(x[0] == "wrong-shape" for x in bad):
        for suffix, msg in bad:
            viol(suffix, msg)
        return base, "bad"
    demand = not (alg == "from_counts" and mixed_ties(s, lab))
    if base is not None and np.asarray(base).shape == s.shape and len(s) > 1 and not np.all(same(v, base[pi], ALIGN_TOL)) \
            and np.all(same(v, base, ALIGN_TOL)) and demand:
        # the values are those of the sorted input, listed in sorted order: one defect, one signature (the range /
        # monotonicity clauses evaluated against the wrong PSMs would only restate it)
        bad = []
    for suffix, msg in bad:
        viol(suffix, msg, observed=v[:12])
    # alignment: the i-th value belongs to the i-th input PSM
    if base is not None and np.asarray(base).shape == s.shape:
        ok = same(v, base[pi], ALIGN_TOL)
        if not np.all(ok):
            i = int(np.argmax(~ok))
            if not demand:
                acc.count("from_counts_tied_order_dependent")
            else:
                sorted_like = bool(np.all(same(v, base, ALIGN_TOL)))
                viol("not-in-input-order",
                     f"value {i} is {v[i]!r} but PSM {i} (score {sp[i]!r}) receives {base[pi][i]!r} when the same PSMs "
                     f"are given in descending order; {int((~ok).sum())} of {len(s)} values differ"
                     + (" - the output equals the result for the sorted input, i.e. it is in sorted, not input, order"
                        if sorted_like else ""),
                     expected=base[pi][:12], observed=v[:12])
                bad = bad + [("not-in-input-order", "")]
    return base, ("bad" if bad else "ok")


def worker(item):
    acc = Acc()
    params, alg, orders = item
    pi0, sep, nt, nd, rnd = params
    data = score_set(pi0, sep, nt, nd, rnd)
    base = None
    for oname in ["desc"] + [o for o in orders if o != "desc"]:
        case = {"part": "est", "pi0": pi0, "sep": sep, "nt": nt, "nd": nd, "round": rnd, "alg": alg, "order": oname}
        b, res = check_case(case, acc, base=base if oname != "desc" else None, data=data)
        if oname == "desc":
            base = b
            if b is None and res == "raised":
                # every order would raise the same way: still execute them (counted), violations are de-duplicated
                pass
        out_hash = None if base is None else hash(tuple(np.round(np.nan_to_num(base, posinf=1e300), 9)))
        acc.case(key=(params, alg, oname), nontrivial=oname != "desc", outcome=(alg, params, out_hash, res), cls=res,
                 sample=dict(case, first_values=None if base is None else [float(x) for x in base[:4]])
                 if (oname == "asc" and sep == 2.0 and pi0 == 0.5 and rnd == 0.1) else None)
        if base is not None and np.any(np.isinf(base)):
            acc.count("outputs_with_inf")
    return acc


# ---------------------------------------------------------------------------------------------
# PEP column of the result files
# ---------------------------------------------------------------------------------------------
def conf_table(pi0, sep, nt, nd, rnd, order):
    s, lab = score_set(pi0, sep, nt, nd, rnd)
    pi = order_index(order, len(s), lab)
    # six decimals: the scores survive the text round trip of the intermediate files bit-exactly (measured: a
    # one-ulp change of the scores moves qvality PEPs by up to 1e-7, which would blur the comparison below)
    s, lab = np.round(s[pi], 6) + 0.0, lab[pi]
    n = len(s)
    aa = "ACDEFGHILMNQSTVWY"
    peps = []
    for i in range(n):
        a, b, c = aa[i % 17], aa[(i // 17) % 17], aa[(i * 7 + 3) % 17]
        peps.append(("T" if lab[i] else "D") + f"{a}{b}{c}PEP{i}K")
    df = pd.DataFrame({
        "SpecId": [f"psm{i}" for i in range(n)],
        "Label": np.where(lab, 1, -1),
        "ScanNr": np.arange(n) + 1,
        "ExpMass": 500.25 + np.arange(n),
        "feat": np.round(s, 6),
        "Peptide": peps,
        "Proteins": [f"prot{i}" for i in range(n)],
    })
    return df, s, lab


def check_conf(case, acc):
    from mokapot.confidence import assign_confidence
    from mokapot.peps import peps_from_scores
    from mc.datasets import make_dataset, read_result, set_chunks, DEFAULT_CHUNKS

    alg = case["alg"]
    seen = set()

    def viol(sig, msg, expected=None, observed=None):
        if sig not in seen:
            seen.add(sig)
            report(acc, Violation(sig, f"assign_confidence(peps_algorithm={alg!r}), file order {case['order']}, "
                                  f"{case['fmt']}: {msg}", case, expected, observed),
                   size=all_orders().index(case["order"]) + (100 if case["fmt"] != "pin" else 0))

    df, s, lab = conf_table(case["pi0"], case["sep"], case["nt"], case["nd"], case["round"], case["order"])
    asc = bool(case.get("ascending"))  # lower-is-better scores: assign_confidence gets -s and descs=[False]
    sgn = -1.0 if asc else 1.0
    by_id = {f"psm{i}": (float(s[i]), bool(lab[i])) for i in range(len(s))}
    set_chunks(**DEFAULT_CHUNKS)
    work = _scratch()
    try:
        out = work / "out"
        out.mkdir()
        ext = ".pin" if case["fmt"] == "pin" else ".parquet"
        ds = make_dataset(df, work / f"t{ext}", features=["feat"])
        try:
            with warnings.catch_warnings():
                warnings.simplefilter("ignore")
                assign_confidence([ds], max_workers=1, scores=[sgn * s.copy()], descs=[not asc], dest_dir=out,
                                  prefixes=[None], decoys=True, deduplication=True, do_rollup=True,
                                  peps_algorithm=alg, **({"qvalue_algorithm": case["qalg"]} if case.get("qalg") else {}))
        except BaseException as e:
            viol(f"assign_confidence-{alg}-raises:" + exc_signature(e), f"raised {type(e).__name__}: {e}")
            return "raised"
        result = []
        for level in ("psms", "peptides"):
            try:
                tdf = read_result(out / f"targets.{level}")
                ddf = read_result(out / f"decoys.{level}")
            except Exception as e:
                viol(f"confidence-{level}-file-unreadable", f"{type(e).__name__}: {e}")
                continue
            rows = []
            for name, d, want in (("targets", tdf, True), ("decoys", ddf, False)):
                for _, r in d.iterrows():
                    pid = r["PSMId"]
                    if pid not in by_id:
                        viol(f"confidence-{level}-unknown-row", f"{name}.{level}: PSMId {pid!r} is not an input row")
                        continue
                    sc, lb = by_id[pid]
                    if lb != want or abs(sgn * float(r["score"]) - sc) > 1e-9:
                        viol(f"confidence-{level}-row-mixed", f"{name}.{level}: row {pid} carries score {r['score']} / "
                             f"label file {name}, the input PSM has score {sc}, target={lb}")
                        continue
                    rows.append((pid, sc, lb, float(r["posterior_error_prob"]), float(r["q-value"])))
            if len({r[0] for r in rows}) != len(by_id):
                # unique spectra and peptides: every level keeps every PSM; otherwise the level's rows are what was kept
                acc.count("confidence_level_not_all_rows")
            if not rows:
                continue
            rows.sort(key=lambda r: -r[1])
            ls = np.array([r[1] for r in rows], dtype=float)
            ll = np.array([r[2] for r in rows], dtype=bool)
            got = np.array([r[3] for r in rows], dtype=float)
            if not np.all(np.isfinite(got)) or got.min() < 0 or got.max() > 1:
                viol(f"confidence-{level}-pep-out-of-range", f"posterior_error_prob outside [0,1] or not finite: "
                     f"min {np.nanmin(got)!r} max {np.nanmax(got)!r}")
            try:
                with warnings.catch_warnings():
                    warnings.simplefilter("ignore")
                    ref = np.asarray(peps_from_scores(ls.copy(), ll.copy(), alg), dtype=float)
            except BaseException as e:
                viol(f"{alg}-raises:" + exc_signature(e), f"stand-alone estimate raised {type(e).__name__}: {e}")
                continue
            # a value per distinct score (ties receive one value - checked in the estimator part)
            ok = same(got, ref, ALIGN_TOL)
            if not np.all(ok):
                i = int(np.argmax(~ok))
                viol(f"confidence-{level}-pep-not-aligned-with-row",
                     f"{level}: posterior_error_prob of {rows[i][0]} (score {ls[i]!r}) is {got[i]!r}, the stand-alone "
                     f"{alg} estimate on the {len(rows)} rows of this level gives {ref[i]!r} for that score; "
                     f"{int((~ok).sum())} rows differ", expected=ref[:12], observed=got[:12])
            if case.get("qalg"):
                # the alternative q-value estimator selected for the result files: the q-value column must be the
                # stand-alone estimate for the rows of this level, row by row
                from mokapot.qvalues import qvalues_from_scores

                gq = np.array([r[4] for r in rows], dtype=float)
                try:
                    with warnings.catch_warnings():
                        warnings.simplefilter("ignore")
                        rq = np.asarray(qvalues_from_scores(ls.copy(), ll.copy(), case["qalg"]), dtype=float)
                except BaseException as e:
                    viol(f"{case['qalg']}-raises:" + exc_signature(e), f"stand-alone q-values raised {type(e).__name__}: {e}")
                    continue
                acc.count("confidence_levels_with_alternative_qvalues")
                okq = same(gq, rq, 1e-6)
                if not np.all(okq):
                    i = int(np.argmax(~okq))
                    viol(f"confidence-{level}-qvalue-not-aligned-with-row",
                         f"{level}: q-value ({case['qalg']}) of {rows[i][0]} (score {ls[i]!r}) is {gq[i]!r}, the stand-alone "
                         f"estimate on the {len(rows)} rows of this level gives {rq[i]!r}; {int((~okq).sum())} rows differ",
                         expected=rq[:12], observed=gq[:12])
            result.append((level, tuple(np.round(got, 9))))
        return hash(tuple(result))
    finally:
        shutil.rmtree(work, ignore_errors=True)


def conf_worker(item):
    acc = Acc()
    for case in item:
        res = check_conf(case, acc)
        acc.case(key=tuple(sorted((k, str(v)) for k, v in case.items())), nontrivial=True, outcome=res,
                 cls="conf_raised" if res == "raised" else "conf_result",
                 sample=case if (case["alg"] == "kde_nnls" and case["order"] == "asc" and case["pi0"] == 0.5) else None)
        acc.count("assign_confidence_runs")
    return acc


# ---------------------------------------------------------------------------------------------
def run(ctx):
    orders = QUICK_ORDERS if ctx.quick else all_orders()
    assert set(QUICK_ORDERS) <= set(all_orders()) and len(set(all_orders())) == len(all_orders())
    for (nt, nd) in SIZES:
        for pi0 in PI0:
            for sep in SEP:
                s0, _ = score_set(pi0, sep, nt, nd, 0.0)
                assert len(np.unique(s0)) == len(s0), ("un-rounded score set has ties", pi0, sep, nt, nd)
                assert len({tuple(order_index(o, len(s0), _)) for o in all_orders()}) == len(all_orders())
    items = []
    sets = [(pi0, sep, nt, nd, rnd) for (nt, nd) in SIZES[::-1] for pi0 in PI0 for sep in SEP for rnd in ROUND]
    # second mixture shape: a low-scoring target group (pi0 < 0 encodes its fraction)
    sets += [(-0.15, sep, nt, nd, rnd) for (nt, nd) in SIZES[::-1] for sep in (2.0, 4.0) for rnd in (0.0, 0.1)]
    for params in sets:
        for alg in PEP_ALGS + Q_ALGS:
            items.append((params, alg, orders))
    # one table of realistic size (12 000 targets + 12 000 decoys): whatever an estimator does to large inputs (binning,
    # sub-sampling, capping) must still give every PSM the same value whatever the input order
    for alg in PEP_ALGS:
        items.append(((0.5, 2.0, 12000, 12000, 0.0), alg, ["desc", "asc", "riffle"]))
    # heavy items (qvality, kde) first so that the pool drains evenly; the set of items is fixed
    items.sort(key=lambda it: (it[1] not in ("qvality", "kde_nnls"), -it[0][3]))
    ctx.pmap(worker, items)
    # PEP column of result files
    conf = []
    csets = [(pi0, sep, 50, 50, rnd) for pi0 in PI0 for sep in SEP for rnd in ((0.0,) if ctx.quick else (0.0, 0.1))]
    corders = ("asc", "blk120r101") if ctx.quick else ("asc", "blk120r101", "riffle", "blk201r010")
    for (pi0, sep, nt, nd, rnd) in csets:
        for alg in PEP_ALGS:
            for o in corders:
                for fmt in ("pin", "parquet"):
                    if fmt == "parquet" and (o != "asc" or (ctx.quick and sep != 2.0)):
                        continue
                    conf.append({"part": "conf", "pi0": pi0, "sep": sep, "nt": nt, "nd": nd, "round": rnd, "alg": alg,
                                 "order": o, "fmt": fmt})
                    if fmt == "pin" and o == "asc" and sep == 2.0 and alg == "qvality":
                        for qalg in ("from_counts", "from_peps"):
                            conf.append({"part": "conf", "pi0": pi0, "sep": sep, "nt": nt, "nd": nd, "round": rnd, "alg": alg,
                                         "order": o, "fmt": fmt, "qalg": qalg})
                    if fmt == "pin" and o == "asc" and sep == 2.0:
                        # lower-is-better scores (descs=[False]): the PEP column must follow the returned direction
                        conf.append({"part": "conf", "pi0": pi0, "sep": sep, "nt": nt, "nd": nd, "round": rnd, "alg": alg,
                                     "order": o, "fmt": fmt, "ascending": True})
    k = 3
    ctx.pmap(conf_worker, [conf[i:i + k] for i in range(0, len(conf), k)])
    ctx.exhaustive = True
    ctx.info["bound"] = {"score_sets": len(sets), "orders": len(orders), "order_names": orders,
                         "algorithms": list(PEP_ALGS + Q_ALGS), "estimator_cases": len(items) * len(orders),
                         "confidence_cases": len(conf)}
    ctx.info["explanation"] = (
        f"{len(sets)} score sets (pi0 {PI0} x separation {SEP} x sizes {SIZES} x rounding {ROUND}) x {len(orders)} "
        f"input orders x 6 algorithms, every combination executed; {len(conf)} assign_confidence runs"
    )


def replay(case):
    acc = Acc()
    if case.get("part") == "conf":
        check_conf(case, acc)
    else:
        check_case(case, acc)
    return acc.violations
