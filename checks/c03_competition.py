"""C03 - competition and roll-up keep exactly the best PSM per spectrum / per entity (E1).

Alphabet: every core table of n rows (spectrum in {1,2,3}, peptide in {T_a,T_b,D_a,D_b}) up to renaming,
listed in descending score order, plus a fixed ballast (so every level keeps both classes);
configuration deviations: de-duplication, roll-up, decoy output, 1..3 collections, prefixes, text/Parquet,
extra level columns, file row order, a four-column spectrum key told apart by one column; a tie family (two equal scores) with any tied winner accepted.
Oracle: selection reference (mc/ref/competition.py) + C01 reference q-values on the retained rows.
"""

from __future__ import annotations

import itertools
import os
import shutil

import numpy as np
import pandas as pd

from mc.core import Acc, Violation, worker_scratch, exc_signature
from mc.datasets import make_dataset, read_result, listing, set_chunks, DEFAULT_CHUNKS
from mc.ref.competition import check_selection, unique_selection
from mc.ref.tdc import ref_qvalues

PROPERTY = "C03"
SIZE_MODULES = ['mokapot.confidence', 'mokapot.utils', 'mokapot.streaming', 'mokapot.tabular_data']  # see mc.runner._sized_passes
LEVEL = "exploration"
RULE = (
    "case = (canonical core table: n rows in descending score order, each (spectrum, peptide class+index) up to "
    "renaming; optional tie position; configuration = deviations from the default over de-duplication, roll-up, "
    "decoys, collections, prefixes, format, extra level columns, file order). Non-trivial iff some spectrum or "
    "peptide occurs more than once in the core (something must lose a competition); distinct by (core, tie, config)"
)
ASSUMPTIONS = [
    "every generated table carries 6 target + 6 decoy ballast rows with unique spectra/peptides and the lowest "
    "scores so that every level keeps both classes (a level without decoys crashes in the PEP step, which is "
    "outside this property)",
    "score ties only in the dedicated tie family, where any tied winner is accepted and decoy output is on",
    "q-value column compared with tolerance 1e-6 (float32 storage and text round trip)",
]

PEPS = ["TA", "TB", "DA", "DB"]
LEVEL_FILES = {"Peptide": "peptides", "ModifiedPeptide": "modifiedpeptides", "Precursor": "precursors",
               "PeptideGroup": "peptidegroups"}
DEFAULT = dict(dedup=True, rollup=True, decoys=True, ncoll=1, prefixes=False, fmt="pin", extras=False, order="desc", chunk=None, shift=None, key=None)
DEVIATIONS = [("dedup", False), ("rollup", False), ("decoys", False), ("ncoll", 2), ("ncoll", 3), ("prefixes", True),
              ("fmt", "parquet"), ("extras", True), ("extras", "same"), ("order", "asc"), ("order", "rot"),
              ("chunk", 2), ("chunk", 3)]
NBALLAST = 6


def canonical_cores(n):
    """Rows (spectrum, peptide) with spectra numbered by first occurrence (<=3) and T/D peptides numbered by first
    occurrence within their class (<=2 each)."""
    out = []

    def rec(rows, nsp, nt, nd):
        if len(rows) == n:
            out.append(tuple(rows))
            return
        for sp in range(1, min(nsp + 1, 3) + 1):
            for cls, used in (("T", nt), ("D", nd)):
                for k in range(min(used + 1, 2)):
                    pep = cls + "AB"[k]
                    rec(rows + [(sp, pep)], max(nsp, sp), nt + (cls == "T" and k == nt), nd + (cls == "D" and k == nd))

    rec([], 0, 0, 0)
    return out


def build_rows(core, coll, tie=None, shift=None):
    rows = []
    score = 100.3712345678  # 13 significant digits: a score column narrowed to float32 would be visible
    for j, (sp, pep) in enumerate(core):
        if tie is not None and j == tie + 1:
            score = round(score + 1.1300000123, 10)  # equal to the previous row
        rows.append(dict(id=f"c{coll}r{j}", scan=sp, label=pep[0] == "T", peptide=pep + "PEPK", score=score,
                         mod=pep + "PEPK" + ("[x]" if j % 2 else "[y]"), group="G" + pep[0],
                         mod_same=pep + "PEPK" + ("[x]" if j % 2 else ""), group_same=pep + "PEPK" if j % 3 == 0 else "G" + pep[0]))
        score = round(score - 1.1300000123, 10)
    score = 50.2112345678
    for k in range(2 * NBALLAST):
        t = k % 2 == 0
        pep = ("TZ" if t else "DZ") + "AL" + "ACDEFGHILMNQ"[k] + "K"
        rows.append(dict(id=f"c{coll}b{k}", scan=11 + k, label=t, peptide=pep, score=score, mod=pep + "[z]",
                         group="G" + pep, mod_same=pep, group_same=pep))
        score = round(score - 1.0700000321, 10)
    if shift == "zero":
        # the first ballast row scores exactly 0.0, the core is positive, the rest of the ballast negative
        z = rows[len(core)]["score"]
        for r in rows:
            r["score"] = round(r["score"] - z, 10)
    for r in rows:
        r["spectrum"] = r["scan"]
        r["prec"] = r["mod"] + "/" + str(2 + r["scan"] % 2)
        r["prec_same"] = r["mod_same"] if r["scan"] % 2 else r["mod_same"] + "/2"
        r["proteins"] = "P_" + r["peptide"]
    return rows


def level_key(extras):
    """Row keys that hold the level columns: with extras == 'same' identifier strings of different levels coincide
    (an unmodified peptide's ModifiedPeptide / Precursor / PeptideGroup equal its Peptide string)."""
    if extras == "same":
        return {"Peptide": "peptide", "ModifiedPeptide": "mod_same", "Precursor": "prec_same", "PeptideGroup": "group_same"}
    return {"Peptide": "peptide", "ModifiedPeptide": "mod", "Precursor": "prec", "PeptideGroup": "group"}


def to_frame(rows, extras, order, key=None):
    idx = list(range(len(rows)))
    if order == "asc":
        idx = idx[::-1]
    elif order == "rot":
        k = len(idx) // 3 + 1
        idx = idx[k:] + idx[:k]
    rs = [rows[i] for i in idx]
    d = {
        "SpecId": [r["id"] for r in rs],
        "Label": [1 if r["label"] else -1 for r in rs],
        "ScanNr": [r["scan"] for r in rs],
        "ExpMass": [100.5 + r["scan"] for r in rs],
        "feat": [r["score"] * 0.5 for r in rs],
        "Peptide": [r["peptide"] for r in rs],
    }
    if key is not None:
        # four-column spectrum key (FileName, ScanNr, ret_time, ExpMass) whose column number `key` alone tells the
        # spectra apart: distinct spectra agree on every other key column
        d["FileName"] = [f"run{r['scan']}.mzML" if key == 0 else "run.mzML" for r in rs]
        d["ScanNr"] = [r["scan"] if key == 1 else 1 for r in rs]
        d["ret_time"] = [10.25 + r["scan"] if key == 2 else 10.25 for r in rs]
        d["ExpMass"] = [100.5 + r["scan"] if key == 3 else 100.5 for r in rs]
        d = {k: d[k] for k in ["SpecId", "Label", "FileName", "ScanNr", "ret_time", "ExpMass", "feat", "Peptide"]}
    if extras:
        lk = level_key(extras)
        d["ModifiedPeptide"] = [r[lk["ModifiedPeptide"]] for r in rs]
        d["Precursor"] = [r[lk["Precursor"]] for r in rs]
        d["PeptideGroup"] = [r[lk["PeptideGroup"]] for r in rs]
    d["Proteins"] = [r["proteins"] for r in rs]
    return pd.DataFrame(d), np.array([r["score"] for r in rs], dtype=float)




def validate_collection(rows, cfg, files, has_tie, add):
    """files: dict name -> DataFrame restricted to this collection's rows (in file order)."""
    by_id = {r["id"]: r for r in rows}
    levels = ["psms"]
    level_cols = []
    if cfg["rollup"]:
        level_cols = ["Peptide"] + (["ModifiedPeptide", "Precursor", "PeptideGroup"] if cfg["extras"] else [])
    pool = rows
    retained_psms = None
    for lvl in ["psms"] + level_cols:
        fname = "psms" if lvl == "psms" else LEVEL_FILES[lvl]
        tdf = files.get(f"targets.{fname}")
        ddf = files.get(f"decoys.{fname}")
        if tdf is None:
            add(f"{fname}-file-missing", f"targets.{fname} was not written")
            return
        if not cfg["decoys"] and ddf is not None:
            add(f"{fname}-decoy-file-written", f"decoys.{fname} written although decoy output is off")
        if cfg["decoys"] and ddf is None:
            add(f"{fname}-decoy-file-missing", f"decoys.{fname} was not written")
            return
        key = (lambda r: r["spectrum"]) if lvl == "psms" else (lambda r, k=level_key(cfg["extras"])[lvl]: r[k])
        # expected (unique when there is no tie)
        if lvl == "psms" and not cfg["dedup"]:
            expected = {r["id"] for r in rows}
        else:
            expected = None if has_tie else unique_selection(pool, key)
        got_t = list(tdf["PSMId"])
        got_d = list(ddf["PSMId"]) if ddf is not None else None
        for name, ids, want_label in (("targets", got_t, True), ("decoys", got_d, False)):
            if ids is None:
                continue
            for i in ids:
                if i not in by_id:
                    add(f"{fname}-unknown-row", f"{name}.{fname}: PSMId {i!r} is not an input row")
                    return
                if by_id[i]["label"] != want_label:
                    add(f"{fname}-wrong-file", f"{name}.{fname} holds {i} whose label is {by_id[i]['label']}")
            if len(set(ids)) != len(ids):
                add(f"{fname}-row-twice", f"{name}.{fname} lists a PSM twice: {ids}")
        if got_d is not None:
            sel = set(got_t) | set(got_d)
            if lvl == "psms" and not cfg["dedup"]:
                if sel != expected:
                    add("psms-dedup-off-rows-differ", f"de-duplication off: expected all {len(expected)} PSMs, got "
                        f"{len(sel)} (missing {sorted(expected - sel)[:5]}, extra {sorted(sel - expected)[:5]})")
            else:
                for sig, msg in check_selection(pool, sel, key, fname):
                    add(sig, msg)
        else:
            # decoys not written: no ties in this configuration, the expected set is unique
            want_t = {i for i in expected if by_id[i]["label"]}
            if set(got_t) != want_t:
                add(f"{fname}-targets-differ", f"targets.{fname}: expected {sorted(want_t)} got {sorted(got_t)}")
            sel = expected
        # row content, order, q-values
        sel_rows = [by_id[i] for i in sel if i in by_id]
        qref = dict(zip([r["id"] for r in sel_rows],
                        ref_qvalues([r["score"] for r in sel_rows], [r["label"] for r in sel_rows], True)))
        for name, df in (("targets", tdf), ("decoys", ddf)):
            if df is None:
                continue
            sc = list(df["score"])
            if any(a < b for a, b in zip(sc, sc[1:])):
                add(f"{fname}-order", f"{name}.{fname} not in non-increasing score order: {sc}")
            for _, row in df.iterrows():
                r = by_id.get(row["PSMId"])
                if r is None:
                    continue
                if row["peptide"] != r["peptide"] or row["proteinIds"] != r["proteins"] or abs(float(row["score"]) - r["score"]) > 1e-9 * abs(r["score"]):
                    add(f"{fname}-row-mixed", f"{name}.{fname}: row {row['PSMId']} carries "
                        f"({row['peptide']},{row['proteinIds']},{row['score']}) but the input PSM is "
                        f"({r['peptide']},{r['proteins']},{r['score']})")
                if cfg["extras"] and cfg["rollup"]:
                    for col, k in list(level_key(cfg["extras"]).items())[1:]:
                        if col in df.columns and row[col] != r[k]:
                            add(f"{fname}-level-column-mixed", f"{name}.{fname}: {col} of {row['PSMId']} is {row[col]!r} not {r[k]!r}")
                a, b = qref.get(row["PSMId"], (None, None))
                if a is not None and abs(float(row["q-value"]) - a / b) > 1e-6:
                    add(f"{fname}-qvalue", f"{name}.{fname}: q-value of {row['PSMId']} is {row['q-value']}, the C01 "
                        f"formula on the {len(sel_rows)} retained rows gives {a}/{b}")
                pep = float(row["posterior_error_prob"])
                if not (0.0 <= pep <= 1.0):
                    add(f"{fname}-pep-range", f"PEP {pep} outside [0,1]")
        if lvl == "psms":
            pool = sel_rows  # higher levels select among the PSMs actually retained
            retained_psms = sel_rows
    return retained_psms


def run_case(case, acc, with_rollup_tool=False):
    import mokapot
    from mokapot.confidence import assign_confidence

    cfg = dict(DEFAULT, **case["config"])
    core = [tuple(x) for x in case["core"]]
    tie = case.get("tie")
    sig_seen = set()

    def add(sig, msg):
        if sig not in sig_seen:
            sig_seen.add(sig)
            acc.violation(Violation(sig, msg, case))

    # streaming chunk size of assign_confidence: duplicates of one spectrum then sit in different score chunks
    set_chunks(**dict(DEFAULT_CHUNKS, **({"CONFIDENCE_CHUNK_SIZE": cfg["chunk"]} if cfg.get("chunk") else {})))
    sc = worker_scratch()
    work = sc.sub()
    try:
        out = work / "out"
        out.mkdir()
        ext = ".pin" if cfg["fmt"] == "pin" else ".parquet"
        colls, dsets, scores = [], [], []
        for c in range(cfg["ncoll"]):
            ccore = core[c:] + core[:c]
            rows = build_rows(ccore, c, tie, cfg.get("shift"))
            df, s = to_frame(rows, cfg["extras"], cfg["order"], cfg.get("key"))
            dsets.append(make_dataset(df, work / f"coll{c}{ext}", features=["feat"]))
            scores.append(s)
            colls.append(rows)
        prefixes = [f"p{c}" for c in range(cfg["ncoll"])] if cfg["prefixes"] else [None] * cfg["ncoll"]
        try:
            assign_confidence(dsets, max_workers=1, scores=scores, descs=[True] * cfg["ncoll"], dest_dir=out,
                              prefixes=prefixes, decoys=cfg["decoys"], deduplication=cfg["dedup"],
                              do_rollup=cfg["rollup"], file_root="r." if with_rollup_tool else "")
        except (Exception, SystemExit) as e:  # the PEP step ends the process (SystemExit) when a level has no targets
            add("raises:" + exc_signature(e), f"assign_confidence raised {type(e).__name__}: {e}")
            return "raised"
        root = "r." if with_rollup_tool else ""
        names = listing(out)
        outcome = []
        retained_all = []
        for c, rows in enumerate(colls):
            files = {}
            pfx = root + (f"p{c}." if cfg["prefixes"] else "")
            for nme in names:
                if nme.startswith(pfx) and (nme[len(pfx):].startswith("targets.") or nme[len(pfx):].startswith("decoys.")):
                    df = read_result(out / nme)
                    if not cfg["prefixes"] and cfg["ncoll"] > 1:
                        mine = df["PSMId"].astype(str).str.startswith(f"c{c}")
                        # concatenation: this collection's rows must be contiguous and in collection order
                        which = [int(str(i)[1:].split("r")[0].split("b")[0]) for i in df["PSMId"]]
                        if which != sorted(which):
                            add("concat-order", f"{nme}: rows of several collections are interleaved: {which}")
                        df = df[mine].reset_index(drop=True)
                    files[nme[len(pfx):]] = df
            ret = validate_collection(rows, cfg, files, tie is not None, add)
            retained_all.append(ret)
            outcome.append({k: list(v["PSMId"]) for k, v in sorted(files.items())})
        if with_rollup_tool and not sig_seen:
            rollup_tool(case, cfg, colls, retained_all, out, work, add)
        return outcome
    finally:
        set_chunks(**DEFAULT_CHUNKS)
        shutil.rmtree(work, ignore_errors=True)


def rollup_tool(case, cfg, colls, retained_all, src, work, add):
    """Stand-alone roll-up on the files just written (needs prefixes + decoys + file root)."""
    from mokapot import brew_rollup

    dest = work / "rolled"
    dest.mkdir()
    try:
        brew_rollup.main(["--level", "psm", "--src_dir", str(src), "--dest_dir", str(dest), "--verbosity", "0"])
    except BaseException as e:
        add("rollup-raises:" + exc_signature(e), f"brew_rollup raised {type(e).__name__}: {e}")
        return
    pool = [r for ret in retained_all for r in (ret or [])]
    by_id = {r["id"]: r for r in pool}
    lvls = {"peptides": "peptide"}
    if cfg["extras"]:
        lk = level_key(cfg["extras"])
        lvls.update({"modified_peptides": lk["ModifiedPeptide"], "precursors": lk["Precursor"], "peptide_groups": lk["PeptideGroup"]})
    for fname, k in lvls.items():
        try:
            tdf = read_result(dest / f"rollup.targets.{fname}")
            ddf = read_result(dest / f"rollup.decoys.{fname}")
        except FileNotFoundError as e:
            add(f"rollup-{fname}-file-missing", str(e))
            continue
        sel = set(tdf["psm_id"]) | set(ddf["psm_id"])
        if len(sel) != len(tdf) + len(ddf):
            add(f"rollup-{fname}-row-twice", "a PSM listed twice")
        for sig, msg in check_selection(pool, sel, lambda r, k=k: r[k], f"rollup-{fname}"):
            add(sig, msg)
        sel_rows = [by_id[i] for i in sel if i in by_id]
        qref = dict(zip([r["id"] for r in sel_rows],
                        ref_qvalues([r["score"] for r in sel_rows], [r["label"] for r in sel_rows], True)))
        for name, df, want in (("targets", tdf, True), ("decoys", ddf, False)):
            sc = list(df["score"])
            if any(a < b for a, b in zip(sc, sc[1:])):
                add(f"rollup-{fname}-order", f"{name} not sorted: {sc}")
            for _, row in df.iterrows():
                r = by_id.get(row["psm_id"])
                if r is None:
                    continue
                if r["label"] != want:
                    add(f"rollup-{fname}-wrong-file", f"{row['psm_id']} in {name}")
                if row["peptide"] != r["peptide"] or abs(float(row["score"]) - r["score"]) > 1e-9 * abs(r["score"]) or row["proteinIds"] != r["proteins"]:
                    add(f"rollup-{fname}-row-mixed", f"row {row['psm_id']} carries fields of another PSM")
                a, b = qref[row["psm_id"]]
                if abs(float(row["q_value"]) - a / b) > 1e-6:
                    add(f"rollup-{fname}-qvalue", f"q-value {row['q_value']} vs {a}/{b} for {row['psm_id']}")


def nontrivial(core):
    sps = [s for s, _ in core]
    ps = [p for _, p in core]
    return len(set(sps)) < len(sps) or len(set(ps)) < len(ps)


def configs(max_dev):
    out = [{}]
    devs = DEVIATIONS
    for k in range(1, max_dev + 1):
        for combo in itertools.combinations(devs, k):
            keys = [c[0] for c in combo]
            if len(set(keys)) < len(keys):
                continue
            out.append(dict(combo))
    return out


def worker(item):
    acc = Acc()
    for case in item:
        tool = case.get("_tool", False)
        res = run_case(case, acc, with_rollup_tool=tool)
        core = [tuple(x) for x in case["core"]]
        acc.case(key=(tuple(core), case.get("tie"), tuple(sorted(case["config"].items())), tool),
                 nontrivial=nontrivial(core), outcome=repr(res),
                 cls="raised" if res == "raised" else "result",
                 sample=case if acc.evaluations % 97 == 3 else None)
        if tool:
            acc.count("rollup_tool_runs")
    return acc


def make_cases(ctx):
    cases = []
    if ctx.quick:
        plan = [(1, 2), (2, 2), (3, 1), (4, 0)]
        extra4 = [{"dedup": False}, {"chunk": 2}]
        tie_n = [2, 3]
    else:
        plan = [(1, 3), (2, 3), (3, 2), (4, 1), (5, 0)]
        extra4 = [{"dedup": False}, {"chunk": 2}, {"chunk": 3, "extras": "same", "fmt": "parquet"}, {"chunk": 2, "shift": "zero"}, {"key": 3}, {"key": 0}]
        tie_n = [2, 3, 4]
    nmax = plan[-1][0]
    for n, maxdev in plan:
        cfgs = configs(maxdev)
        if maxdev == 0:
            cfgs = [{}] + extra4
        elif maxdev == 1:  # the chunked merge with an exact zero among negative scores needs two deviations
            cfgs = cfgs + [{"chunk": 2, "shift": "zero"}]
        if maxdev >= 1:  # spectra told apart by one column of a four-column key only
            cfgs = cfgs + [{"key": 0}, {"key": 2}, {"key": 3}, {"key": 3, "chunk": 2}]
        for core in canonical_cores(n):
            for cfg in cfgs:
                cases.append({"core": [list(x) for x in core], "config": cfg})
    # tie family: rows j and j+1 share the score; only informative when they share a spectrum or a peptide
    for n in tie_n:
        for core in canonical_cores(n):
            for j in range(n - 1):
                if core[j][0] == core[j + 1][0] or core[j][1] == core[j + 1][1]:
                    for order in ("desc", "asc", "rot"):
                        for extra in ({}, {"dedup": False}, {"extras": True}):
                            cases.append({"core": [list(x) for x in core], "tie": j,
                                          "config": dict(order=order, **extra)})
    # stand-alone roll-up tool on written results (prefixes + decoys so that the tool finds *.targets.psms)
    for n in range(1, (3 if ctx.quick else 4) + 1):
        for core in canonical_cores(n):
            for ncoll, extras in ((1, False), (2, True), (1, "same")) if (ctx.quick or n == 4) else ((1, False), (1, True), (2, False), (2, True), (1, "same"), (2, "same")):
                cases.append({"core": [list(x) for x in core], "_tool": True,
                              "config": dict(ncoll=ncoll, prefixes=True, extras=extras)})
    return cases, nmax


def run(ctx):
    cases, nmax = make_cases(ctx)
    cases = ctx.rotate(cases)
    k = 40
    items = [cases[i:i + k] for i in range(0, len(cases), k)]
    ctx.seed = 0  # items already rotated
    ctx.pmap(worker, items)
    ctx.exhaustive = True
    ctx.info["bound"] = {"n_core_max": nmax, "cores": {n: len(canonical_cores(n)) for n in range(1, nmax + 1)},
                         "cases": len(cases)}


def replay(case):
    acc = Acc()
    tool = case.get("_tool", False)
    run_case(case, acc, with_rollup_tool=tool)
    return acc.violations
