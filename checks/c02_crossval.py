"""C02 - cross-validation integrity (E1 over datasets/configurations + E2 over pool schedules).

Observed only through the public API: brew(...) with a recording estimator passed via Model(...).
"""

from __future__ import annotations

import itertools
import shutil

import numpy as np

from mc.core import Acc, Violation, worker_scratch, classify_exception, exc_signature
from mc.datasets import make_dataset, gen_psms, set_chunks, DEFAULT_CHUNKS, write_table
from mc.recorders import make_model, fit_log, score_log
from mc import sched

PROPERTY = "C02"
SIZE_MODULES = ['mokapot.brew', 'mokapot.dataset', 'mokapot.model']  # see mc.runner._sized_passes
LEVEL = "model_checking"
RULE = (
    "E1: case = (spectrum-multiplicity vector repeated to the dataset size, scan offset, configuration = deviations "
    "(<=2 quick, <=3 thorough) from {folds=3, no cap, 1 worker, seed 1, linear recorder, 2-column spectrum key, one "
    "file, text}); non-trivial iff some spectrum has >1 PSM (a group can straddle a fold boundary); "
    "E2: every schedule of each joblib pool invocation of brew (3 workers) with <= bound preemptions, outcome "
    "(scores, per-model recorder logs) must equal the sequential one. states = distinct (invocation, schedule "
    "prefix) nodes executed, transitions = scheduling decisions taken"
)
ASSUMPTIONS = [
    "the recording estimator identifies a row by the value of a feature with pairwise distinct values",
    "training-phase = a frame of the public method Model.fit is on the stack",
    "third-party code (pandas, numpy, sklearn) runs atomically between scheduling points; GIL-protected list.append",
    "fold contents cannot be predicted without re-implementing the hash, so runs ending in one of mokapot's explicit "
    "errors (calibration / training failure) are counted, not demanded; crashes are violations",
]

E2_BUDGET = 40  # executions per E2 work item before the rest of the subtree is re-queued
DEFAULT = dict(folds=3, cap=None, workers=1, seed=1, est="linear", key=2, files="1", fmt="pin", pred_chunk=None, read_chunk=None)
DEVS = (
    [("folds", f) for f in (2, 4, 5, 6)]
    + [("cap", c) for c in ("small", "half", "large")]
    + [("workers", w) for w in (2, 4, 8)]
    + [("seed", s) for s in (2, 42)]
    + [("est", e) for e in ("proba", "memo")]
    + [("key", k) for k in (1, 3, 4)]
    + [("files", f) for f in ("2eq", "2uneq", "3")]
    + [("fmt", "parquet")]
    # streaming chunk sizes: a prediction chunk may then hold no PSM of some fold, a training read chunk cuts spectra
    + [("pred_chunk", c) for c in (3, 10)]
    + [("read_chunk", 7)]
    # history: the SAME dataset objects were brewed before (through shallow copies, as brew consumes the object it is
    # given) with these fold counts; the observed run works on further shallow copies
    + [("history", h) for h in ((4,), (2, 5))]
)


def configs(maxdev):
    out = [{}]
    for k in range(1, maxdev + 1):
        for combo in itertools.combinations(DEVS, k):
            keys = [c[0] for c in combo]
            if len(set(keys)) == len(keys):
                out.append(dict(combo))
    return out


def build_inputs(case, work):
    cfg = dict(DEFAULT, **case["config"])
    base = list(case["mults"])
    nspec = max(24, 8 * cfg["folds"])
    sizes = {"1": [nspec], "2eq": [nspec, nspec], "2uneq": [nspec, nspec // 2 + 3], "3": [nspec, nspec - 2, nspec // 2 + 3]}[cfg["files"]]
    frames = []
    for fi, ns in enumerate(sizes):
        mults = [base[i % len(base)] for i in range(ns)]
        df, spec = gen_psms(mults, offset=case["offset"], file_idx=fi, key_cols=cfg["key"], pattern=fi)
        frames.append((df, spec))
    ext = ".pin" if cfg["fmt"] == "pin" else ".parquet"
    paths = []
    for fi, (df, spec) in enumerate(frames):
        p = work / f"in{fi}{ext}"
        write_table(df, p, row_group_size=5)
        paths.append(p)
    return cfg, frames, paths


def run_brew(cfg, frames, paths, labels_override=None):
    import mokapot

    dsets = []
    for (df, spec), p in zip(frames, paths):
        dsets.append(make_dataset(df, p, features=["f_key", "f2"], spectrum=spec, write=False))
    total = sum(len(df) for df, _ in frames)
    cap = {None: None, "small": max(4, total // 5), "half": total // 2, "large": total * 2}[cfg["cap"]]
    model = make_model(cfg["est"], first_only=True)
    ch = dict(DEFAULT_CHUNKS)
    if cfg.get("pred_chunk"):
        ch["CHUNK_SIZE_ROWS_PREDICTION"] = cfg["pred_chunk"]
    if cfg.get("read_chunk"):
        ch["CHUNK_SIZE_READ_ALL_DATA"] = cfg["read_chunk"]
    if not cfg.get("_e2"):
        set_chunks(**ch)
    if cfg.get("history"):
        import copy

        for f in cfg["history"]:
            try:
                mokapot.brew([copy.copy(d) for d in dsets], model=make_model(cfg["est"], first_only=True), test_fdr=0.5, folds=f,
                             max_workers=1, rng=cfg["seed"] + 1, subset_max_train=cap)
            except (RuntimeError, ValueError):
                pass  # an explicit refusal of the earlier analysis is not the observed run's business
        dsets = [copy.copy(d) for d in dsets]
    return mokapot.brew(dsets, model=model, test_fdr=0.5, folds=cfg["folds"], max_workers=cfg["workers"],
                        rng=cfg["seed"], subset_max_train=cap), cap


def analyse(case, cfg, frames, res, add):
    """Oracle clauses (1)-(4). Returns outcome class."""
    psms, models, scores, descs = res
    folds = cfg["folds"]
    if len(models) != folds:
        add("models-count", f"{len(models)} models for {folds} folds")
        return "result"
    if [m.fold for m in models] != list(range(1, folds + 1)):
        add("models-order", f"models not ordered by fold: {[m.fold for m in models]}")
    # row bookkeeping
    key2row = {}
    for fi, (df, spec) in enumerate(frames):
        for pos, (k, *sp) in enumerate(zip(df["f_key"], *[df[c] for c in spec])):
            key2row[float(k)] = (fi, pos, (fi, tuple(sp)))
    allkeys = set(key2row)
    trained = [m.is_trained for m in models]
    F, T = [], []
    for m in models:
        f = []
        for e in score_log(m, "predict"):
            f.extend(e[2])
        F.append(f)
        t = set()
        for e in m.estimator.log_:
            if e[1] == "train":
                t.update(e[2])
        T.append(t)
    # (3) training never touches the held-out fold / its spectra (checked on whatever was trained)
    for i, m in enumerate(models):
        if not F[i] and not T[i]:
            continue
        Fi = set(F[i])
        if not Fi:
            continue
        leak = T[i] & Fi
        if leak:
            add("train-sees-heldout-psm", f"model {i+1} was trained on {len(leak)} PSM(s) it later scores, e.g. key {sorted(leak)[0]}")
        spF = {key2row[k][2] for k in Fi if k in key2row}
        spT = {key2row[k][2] for k in T[i] if k in key2row}
        if spF & spT and not leak:
            add("train-sees-heldout-spectrum", f"model {i+1} was trained on another PSM of a spectrum it scores: {sorted(spF & spT)[0]}")
    if not all(trained):
        return "result_untrained"
    # (1) partition
    flat = [k for f in F for k in set(f)]  # the same model may be asked twice for the same rows (predict_proba path)
    if any(len(f) == 0 for f in F):
        add("fold-empty", f"a model scored no PSM: sizes {[len(f) for f in F]}")
    if len(flat) != len(set(flat)):
        add("psm-scored-by-two-models", "a PSM was scored by more than one fold model in the prediction phase")
    if set(flat) != allkeys:
        add("psm-not-scored", f"{len(allkeys - set(flat))} PSM(s) never scored by a fold model; {len(set(flat) - allkeys)} unknown keys")
    # (2) spectra never split
    owner = {}
    for i, f in enumerate(F):
        for k in f:
            sp = key2row.get(k, (None, None, None))[2]
            if owner.setdefault(sp, i) != i:
                add("spectrum-split-across-folds", f"spectrum {sp} has PSMs in folds {owner[sp]+1} and {i+1}")
    # without a cap the training data is exactly the complement
    if cfg["cap"] is None:
        for i in range(folds):
            if T[i] and T[i] != allkeys - set(F[i]):
                add("train-not-complement", f"model {i+1}: training rows differ from the other folds' rows "
                    f"(missing {len((allkeys - set(F[i])) - T[i])}, extra {len(T[i] - (allkeys - set(F[i])))})")
    # (4) returned score belongs to its row
    def _same(a, b):  # a feature read back from text may differ from the generated value in the last bit
        a = np.asarray(a, dtype=float).ravel()
        return a.shape == b.shape and np.allclose(a, b, rtol=1e-12, atol=0)

    feat_fallback = all(_same(s, df["f_key"].values.astype(float)) or _same(s, df["f2"].values.astype(float))
                        for s, (df, _) in zip(scores, frames))
    if feat_fallback:
        return "result_fallback"
    for i, m in enumerate(models):
        raw = {}
        for e in score_log(m, "predict"):
            raw.update(zip(e[2], e[3]))
        by_file = {}
        for k, r in raw.items():
            if k in key2row:
                fi, pos, _ = key2row[k]
                by_file.setdefault(fi, []).append((r, float(np.asarray(scores[fi]).ravel()[pos]), k))
        for fi, pts in by_file.items():
            if cfg["est"] == "proba":
                bad = [p for p in pts if abs(p[0] - p[1]) > 1e-12]
                if bad:
                    add("score-not-of-its-row", f"fold {i+1}: returned score {bad[0][1]} for key {bad[0][2]} but the model returned {bad[0][0]} for that row")
                continue
            pts.sort()
            (r0, s0, _), (r1, s1, _) = pts[0], pts[-1]
            if r1 == r0:
                continue
            a = (s1 - s0) / (r1 - r0)  # sign and anchors of the map are C11's topic (needs its precondition)
            for r, s, k in pts:
                if abs(s - (s0 + a * (r - r0))) > 1e-7 * max(1.0, abs(s), abs(s0), abs(s1)):
                    add("score-not-of-its-row", f"fold {i+1}: returned score of key {k} is not the calibrated image of the value the fold's model returned for that row")
                    break
    return "result_full"


def check_case(case, acc):
    set_chunks(**DEFAULT_CHUNKS)
    work = worker_scratch().sub()
    sigs = set()

    def add(sig, msg):
        if sig not in sigs:
            sigs.add(sig)
            acc.violation(Violation(sig, msg, case))

    try:
        cfg, frames, paths = build_inputs(case, work)
        try:
            res, cap = run_brew(cfg, frames, paths)
        except Exception as e:
            cls, desc = classify_exception(e)
            if cls == "crash":
                add("crash:" + exc_signature(e), f"brew crashed: {desc}")
            return cls, None
        cls = analyse(case, cfg, frames, res, add)
        out = tuple(tuple(sorted(set(k for e in score_log(m, "predict") for k in e[2]))) for m in res[1])
        return cls, out
    finally:
        shutil.rmtree(work, ignore_errors=True)


def worker(item):
    acc = Acc()
    for case in item:
        cls, out = check_case(case, acc)
        acc.case(key=(tuple(case["mults"]), case["offset"], tuple(sorted(case["config"].items()))),
                 nontrivial=max(case["mults"]) > 1, outcome=repr(out), cls=cls,
                 sample=dict(case, outcome_class=cls) if acc.evaluations % 53 == 1 else None)
    return acc


# ---------------------------------------------------------------------------------------------
# (5) label non-interference with the memorising learner
# ---------------------------------------------------------------------------------------------
def noninterference_worker(item):
    import pandas as pd

    case, fold = item
    acc = Acc()
    set_chunks(**DEFAULT_CHUNKS)
    work = worker_scratch().sub()
    try:
        cfg, frames, paths = build_inputs(case, work)
        cfg["est"] = "memo"
        try:
            res, _ = run_brew(cfg, frames, paths)
        except Exception as e:
            acc.case(key=(repr(case), fold, "base"), cls=classify_exception(e)[0])
            return acc
        models = res[1]
        if not all(m.is_trained for m in models):
            return acc
        Fi = sorted(set(k for e in score_log(models[fold], "predict") for k in e[2]))
        if len(Fi) > 7:
            Fi = Fi[:7]
        df0, spec = frames[0]
        pos = [int(np.where(df0["f_key"].values == k)[0][0]) for k in Fi]
        seen = {}
        for pattern in itertools.product((1, -1), repeat=len(pos)):
            df = df0.copy()
            lab = df["Label"].values.copy()
            lab[pos] = pattern
            df["Label"] = lab
            write_table(df, paths[0], row_group_size=5)
            try:
                r, _ = run_brew(cfg, [(df, spec)], paths)
            except Exception as e:
                cls, desc = classify_exception(e)
                acc.case(key=(repr(case), fold, pattern), nontrivial=True, cls=cls)
                if cls == "crash":
                    acc.violation(Violation("crash:" + exc_signature(e), desc, {"nonint": case, "fold": fold, "pattern": pattern}))
                continue
            m = r[1][fold]
            raw = {}
            for e in score_log(m, "predict"):
                raw.update(zip(e[2], e[3]))
            vec = tuple(raw.get(k) for k in Fi)
            ok = all(mm.is_trained for mm in r[1])
            acc.case(key=(repr(case), fold, pattern), nontrivial=True, outcome=repr(vec),
                     cls="nonint_trained" if ok else "nonint_untrained")
            if not ok or None in vec:
                continue
            acc.count("nonint_compared")
            if seen.setdefault("v", vec) != vec:
                acc.violation(Violation(
                    "heldout-labels-influence-heldout-scores",
                    f"fold {fold+1}: the raw scores its model gives to its own PSMs changed when only the labels of "
                    f"those PSMs were changed (pattern {pattern})", {"nonint": case, "fold": fold, "pattern": pattern},
                    expected=seen["v"], observed=vec))
                break
    finally:
        shutil.rmtree(work, ignore_errors=True)
    return acc


# ---------------------------------------------------------------------------------------------
# E2: schedules of the pool invocations inside brew
# ---------------------------------------------------------------------------------------------
def _outcome(res):
    psms, models, scores, descs = res
    sc = tuple(tuple(float(f"{v:.12g}") for v in np.asarray(s).ravel()) for s in scores)
    logs = tuple(tuple((e[0], e[1], e[2], tuple(float(f"{v:.12g}") for v in e[3])) for e in m.estimator.log_)
                 for m in models)
    return (sc, logs, tuple(descs), tuple(m.fold for m in models))


def e2_body(case, work):
    cfg, frames, paths = build_inputs(case, work)
    cfg["_e2"] = True
    cfg["workers"] = case.get("e2_workers", 3)
    set_chunks(CHUNK_SIZE_READ_ALL_DATA=case.get("read_chunk", 18), CHUNK_SIZE_ROWS_PREDICTION=case.get("pred_chunk", 28))

    def body():
        res, _ = run_brew(cfg, frames, paths)
        return _outcome(res)

    return body, cfg, frames, paths


def e2_worker(item):
    case, focus, bound, gran, root, ref_hash = item
    acc = Acc()
    work = worker_scratch().sub()
    try:
        body, cfg, frames, paths = e2_body(case, work)

        def on_exec(exe, out, exc):
            acc.count("e2_executions")
            acc.count("e2_transitions", len(exe.choices))
            acc.count("e2_preemptions", exe.preemptions)
            if exe.max_inflight >= 2:
                acc.count("e2_executions_with_2plus_inflight")
            h = hash(out) if exc is None else "EXC:" + exc_signature(exc)
            acc.case(key=(repr(case), focus, tuple(exe.choices)), nontrivial=exe.max_inflight >= 2, outcome=h,
                     cls="schedule")
            if h != ref_hash:
                # before trusting a failure: the same schedule must fail identically when executed again
                exe2, out2, exc2 = sched.execute(body, list(exe.choices), focus, gran)
                h2 = hash(out2) if exc2 is None else "EXC:" + exc_signature(exc2)
                if h2 != h:
                    acc.violation(Violation("harness-nondeterministic-schedule", f"schedule {exe.choices} of invocation {focus} gave two "
                                            "different observations in two executions: uncontrolled nondeterminism in the harness",
                                            {"focus": focus, "schedule": list(exe.choices)}))
                    return
                acc.violation(Violation(
                    "schedule-changes-result" if exc is None else "schedule-crash:" + exc_signature(exc),
                    f"pool invocation {focus}: schedule {exe.choices} ({exe.preemptions} preemption(s)) gives a result "
                    f"different from the sequential run" + (f": {exc}" if exc else ""),
                    {"e2": case, "focus": focus, "schedule": list(exe.choices), "granularity": gran}))

        # a budget of executions per work item; what is left of the subtree goes back to the parent's queue
        n, more = sched.explore(body, focus, bound, on_exec, granularity=gran, root_prefix=root, cap=E2_BUDGET)
        if more:
            acc.payload.extend((case, focus, bound, gran, list(pfx), ref_hash) for pfx in sched.explore.remaining)
    finally:
        set_chunks(**DEFAULT_CHUNKS)
        shutil.rmtree(work, ignore_errors=True)
    return acc


def e2_plan(ctx, case, bounds):
    """Root executions in the parent; subtrees become work items."""
    items = []
    work = worker_scratch().sub()
    try:
        body, cfg, frames, paths = e2_body(case, work)
        seq = dict(case, e2_workers=1)
        b1, *_ = e2_body(seq, work)
        ref = hash(b1())
        ninv = sched.count_invocations(body)
        info = {"invocations": ninv, "bounds": {}}
        for focus in range(ninv):
            bound, gran = bounds(focus)
            exe, out, exc = sched.execute(body, [], focus, gran)
            if exe.focus_tasks < 2:
                continue
            ctx.acc.count("e2_executions")
            ctx.acc.count("e2_transitions", len(exe.choices))
            h = hash(out) if exc is None else "EXC"
            ctx.acc.case(key=(repr(case), focus, ()), nontrivial=exe.max_inflight >= 2, outcome=h, cls="schedule")
            if h != ref:
                ctx.acc.violation(Violation("schedule-changes-result", f"default schedule of invocation {focus} differs from sequential",
                                            {"e2": case, "focus": focus, "schedule": [], "granularity": gran}))
            info["bounds"][focus] = {"bound": bound, "granularity": gran, "tasks": exe.focus_tasks, "points": len(exe.choices)}
            for child in sched.children(exe, bound):
                items.append((case, focus, bound, gran, child, ref))
        # conformance of the pool model: the free-running real joblib must land in the explored outcome set
        for w in (2, 4, 8):
            bw, *_ = e2_body(dict(case, e2_workers=w), work)
            if hash(bw()) != ref:
                ctx.acc.violation(Violation("joblib-free-run-differs", f"real joblib with {w} workers differs from sequential",
                                            {"e2": case, "workers": w}))
            ctx.acc.count("joblib_free_runs")
        return items, info
    finally:
        set_chunks(**DEFAULT_CHUNKS)
        shutil.rmtree(work, ignore_errors=True)


# index of the fold-fitting pool invocation inside brew: one parse invocation per file, one concat invocation
FIT_INVOCATION = {"1": 2, "2eq": 3, "2uneq": 3, "3": 4}
E2_CASES = [
    {"mults": [1, 2, 3, 1], "offset": 3, "config": {}},
    {"mults": [2, 1, 1, 3], "offset": 5, "config": {"files": "2uneq"}, "read_chunk": 9, "pred_chunk": 14},
]


def run(ctx):
    maxdev = 2 if ctx.quick else 3
    mult_vecs = sorted({tuple(sorted(v)) for v in itertools.product((1, 2, 3), repeat=4)}) if ctx.quick else \
        list(itertools.product((1, 2, 3), repeat=4))
    offsets = (0, 3) if ctx.quick else (0, 1, 3, 6)
    cfgs = configs(maxdev)
    cases = []
    for mv in mult_vecs:
        for off in offsets:
            # all configurations on a rotating subset of datasets keeps the product tractable:
            for ci, cfg in enumerate(cfgs):
                if len(cfg) <= 1 or (ci + hash((mv, off))) % (4 if ctx.quick else 6) == 0:
                    cases.append({"mults": list(mv), "offset": off, "config": cfg})
    cases = ctx.rotate(cases)
    k = 25
    items = [cases[i:i + k] for i in range(0, len(cases), k)]
    save = ctx.seed
    ctx.seed = 0
    ctx.pmap(worker, items)
    # (5) label non-interference
    ni = []
    for mv, off in (((1, 2, 1, 1), 0), ((2, 1, 3, 1), 3)) if ctx.quick else (((1, 2, 1, 1), 0), ((2, 1, 3, 1), 3), ((1, 1, 1, 2), 1), ((3, 1, 2, 1), 6)):
        for fold in range(3):
            ni.append(({"mults": list(mv), "offset": off, "config": {}}, fold))
    ctx.pmap(noninterference_worker, ni)
    # E2
    e2_items, infos = [], []
    for case in E2_CASES[: 1 if ctx.quick else 2]:
        def bounds(focus, quick=ctx.quick, fit=FIT_INVOCATION[case["config"].get("files", "1")]):
            # the fit invocation has hundreds of nested points: explored at task-line granularity (quick) /
            # with nested call points at bound 1 (thorough); the others with nested points at bound 1 / 2
            if focus == fit:
                return (1, "task") if quick else (1, "entry")
            if quick:
                return (1, "entry")
            # thorough: bound 2 at task-line granularity on the one-file case, bound 1 with nested points on the
            # two-file case (bound 2 with nested points was measured at > 2 h)
            return (2, "task") if case["config"].get("files", "1") == "1" else (1, "entry")
        items2, info = e2_plan(ctx, case, bounds)
        e2_items += items2
        infos.append(info)
    while e2_items:  # work items hand back the unexplored rest of their subtree: re-queue until nothing is left
        before = len(ctx.acc.payload)
        ctx.pmap(e2_worker, e2_items)
        e2_items = ctx.acc.payload[before:]
        del ctx.acc.payload[before:]
    ctx.seed = save
    ex = ctx.acc.extra
    ctx.info["states"] = ex.get("e2_executions", 0) + ctx.acc.classes.get("result_full", 0)
    ctx.info["transitions"] = ex.get("e2_transitions", 0)
    ctx.info["traces_validated_against_impl"] = ex.get("e2_executions", 0)
    ctx.info["e2"] = infos
    ctx.info["bound"] = {"max_deviations": maxdev, "multiplicity_vectors": len(mult_vecs), "offsets": list(offsets),
                         "e2_preemption_bound": 1 if ctx.quick else 2}
    ctx.exhaustive = True


def replay(case):
    acc = Acc()
    if "e2" in case:
        c = case["e2"]
        work = worker_scratch().sub()
        try:
            if "schedule" not in case:
                return []
            body, *_ = e2_body(c, work)
            b1, *_ = e2_body(dict(c, e2_workers=1), work)
            ref = b1()
            outs = []
            for _ in range(2):  # a recorded schedule must reproduce identically
                exe, out, exc = sched.execute(body, case["schedule"], case["focus"], case.get("granularity", "entry"))
                outs.append(repr(out) if exc is None else "EXC:" + exc_signature(exc))
            if outs[0] != outs[1]:
                acc.violation(Violation("harness-nondeterministic-replay", "same schedule, different observations", case))
            elif outs[0] != repr(ref):
                acc.violation(Violation("schedule-changes-result", "replayed schedule differs from sequential", case))
        finally:
            set_chunks(**DEFAULT_CHUNKS)
            shutil.rmtree(work, ignore_errors=True)
        return acc.violations
    if "nonint" in case:
        acc2 = noninterference_worker((case["nonint"], case["fold"]))
        return acc2.violations
    check_case(case, acc)
    return acc.violations
