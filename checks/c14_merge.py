"""C14 - k-way merge returns every row once, globally sorted by score (E1).

Families of individually sorted inputs over scores {-1,0,1} (every tie structure, every split of
N rows into 1..4 inputs, plus 8 single-row inputs), text and Parquet, every reader chunk size,
`utils.merge_sort` and every access path of `MergedTabularDataReader` / `merge_readers`,
descending and ascending.  Negative families (one adjacent inversion in one input) must not
yield a complete, unsorted result.  Oracle: mc/ref/merge.py (`sorted`, multisets).
"""

from __future__ import annotations

import pandas as pd
import pyarrow as pa
import pyarrow.parquet as pq

from mc.core import Acc, Violation, stable_hash, worker_scratch
from mc.ref import merge as M
from mc.ref.table import py, write_text

PROPERTY = "C14"
SIZE_MODULES = ['mokapot.streaming', 'mokapot.utils', 'mokapot.tabular_data']  # see mc.runner._sized_passes
LEVEL = "exploration"
RULE = (
    "cases = (family of inputs given as score sequences in file order, format, direction, access path, reader "
    "chunk size, output chunk size), complete product within the bounds; a positive case is non-trivial iff it "
    "has >= 2 inputs and either two inputs share a score or the plain concatenation of the inputs is not sorted; "
    "negative cases (one adjacent inversion in one input) are all non-trivial. Independence of chunk size and of "
    "the number of inputs is decided through the reference: every case must return exactly the multiset of its "
    "input rows in score order, which is the same for every chunk size and every split of the same rows."
)
ASSUMPTIONS = [
    "reader chunk sizes 1..L+1 with L the longest input of the family: a chunk size above L delivers every input "
    "as one chunk (C13), so L+1 stands for all larger sizes",
    "get_chunked_data_iterator: output chunk 2 with every reader chunk size, and every output chunk size 1..N+1 "
    "with reader chunk size 2 (all single deviations from (2,2)), not the full square",
    "rows tied on the score may come out in any order; values are compared as python scalars",
    "negative cases: a ValueError or a complete output that is still sorted are both accepted, only a complete "
    "unsorted output is a violation; utils.merge_sort makes no sortedness promise and gets no negative cases",
    "Parquet inputs are written with row groups of 2 rows, text inputs tab-separated with suffix .tab",
    "text files whose score column types, as inferred from their first two rows, differ (all-integral vs fractional) "
    "are refused by the merger with the explicit error 'Column types do not match'; such families are counted as "
    "schema_refused, not judged",
]

PA = [pa.int64(), pa.float64(), pa.string()]
MERGED = ["read", "rows:DataFrame", "rows:Dicts", "rows:Records", "merge_readers"]
_POOL, _DIR = {}, [None]  # per process: files already written, and where


def input_path(fmt, j, seq, layout=None):
    """File of input j with the given score sequence; written once per worker process.
    layout "dirs": every input lies in a directory of its own under the SAME file name (one result file per run)."""
    key = (fmt, j, tuple(seq), M.FINE, layout)
    if key not in _POOL:
        if _DIR[0] is None:
            _DIR[0] = worker_scratch().sub("pool")
        stem = f"in{j}_{''.join(map(str, seq))}{('_' + str(M.FINE)) if M.FINE else ''}"
        p = _DIR[0] / f"{stem}.{fmt}"
        if layout == "dirs":
            (_DIR[0] / ("run_" + stem)).mkdir(exist_ok=True)
            p = _DIR[0] / ("run_" + stem) / f"scores.{fmt}"
        rows = M.rows_of([()] * j + [seq])[j]
        if fmt == "parquet":
            tbl = pa.table({c: pa.array([r[k] for r in rows], PA[k]) for k, c in enumerate(M.COLS)})
            pq.write_table(tbl, p, row_group_size=2)
        elif M.FINE == "half":
            with open(p, "w") as fh:  # %g: integral scores carry no decimal point
                fh.write("\t".join(M.COLS) + "\n")
                for r in rows:
                    fh.write(f"{r[0]}\t{r[1]:g}\t{r[2]}\n")
        else:
            write_text(p, M.COLS, rows)
        _POOL[key] = p
    return _POOL[key]


def rows_from(x):
    if isinstance(x, pd.DataFrame):
        return [tuple(py(v) for v in r) for r in x[M.COLS].itertuples(index=False, name=None)]
    return [tuple(py(x[c]) for c in M.COLS)]


def observe(case):
    """Run one access path; -> (rows delivered so far, exception or None)."""
    M.FINE = case.get("fine") or False
    import mokapot.utils as mu
    from mokapot.streaming import MergedTabularDataReader, merge_readers
    from mokapot.tabular_data import TableType, TabularDataReader

    impl, desc, c = case["impl"], case["desc"], case["chunk"]
    paths = [input_path(case["fmt"], j, seq, case.get("layout")) for j, seq in enumerate(case["inputs"])]
    out = []
    try:
        if impl == "merge_sort":
            mu.MERGE_SORT_CHUNK_SIZE = c
            if case.get("abandon_first"):
                # history: another merge over the same kind of inputs was started and abandoned after k rows
                prior = mu.merge_sort(paths[::-1] if len(paths) > 1 else paths, "score")
                for _ in range(case["abandon_first"]):
                    next(prior, None)
            it = mu.merge_sort(paths, "score")
        else:
            readers = [TabularDataReader.from_path(p) for p in paths]
            if impl == "merge_readers":
                it = merge_readers(readers, "score", desc, reader_chunk_size=c)
            else:
                m = MergedTabularDataReader(readers, "score", desc, reader_chunk_size=c)
                if impl == "read":
                    it = [m.read()]
                elif impl == "chunked":
                    it = m.get_chunked_data_iterator(chunk_size=case["out_chunk"])
                else:
                    it = m.get_row_iterator(row_type=TableType[impl.split(":")[1]])
        for x in it:
            out += rows_from(x)
    except Exception as e:
        return out, e
    return out, None


def signature(impl):
    return {"merge_sort": "merge-sort-", "merge_readers": "merge-readers-"}.get(
        impl, "merged-" + impl.replace(":", "-").lower() + "-")


def check_case(case, acc):
    """-> (outcome class, rows)."""
    M.FINE = case.get("fine") or False
    inputs, desc = [tuple(s) for s in case["inputs"]], case["desc"]
    out, exc = observe(case)
    sig = signature(case["impl"])
    if case.get("fine") == "half" and isinstance(exc, AssertionError) and "Column types do not match" in str(exc):
        # the column type of a text file is inferred from its first two rows; inputs whose inferred score types differ
        # (one all-integral head, one fractional) are refused up front with this explicit error
        heads = {all(float(M.score_value(x)).is_integer() for x in seq[:2]) for seq in inputs}
        if len(heads) > 1:
            return "schema_refused", out
    if not case["negative"]:
        if exc is not None:
            acc.violation(Violation(sig + f"raises:{type(exc).__name__}",
                                    f"{case}: {type(exc).__name__}: {str(exc)[:200]}", case, M.ref_merge(inputs, desc), out))
            return "raise", out
        v = M.verdict(out, inputs, desc)
        if v:
            acc.violation(Violation(sig + v, f"{case}: output is not the sorted multiset of the input rows",
                                    case, M.ref_merge(inputs, desc), out))
        return "result", out
    if isinstance(exc, ValueError):
        return "rejected", out
    if exc is not None:
        return "other_error", out
    if M.is_sorted([r[1] for r in out], desc):
        return "sorted_anyway", out
    acc.violation(Violation(sig + "unsorted-input-not-rejected",
                            f"{case}: an input is not sorted as declared, yet a complete unsorted result was delivered",
                            case, "ValueError", out))
    return "unsorted", out


def plan(inputs, desc, negative):
    n = sum(len(s) for s in inputs)
    chunks = range(1, max(len(s) for s in inputs) + 2)
    if desc and not negative:
        yield from (("merge_sort", c, None) for c in chunks)
    for impl in MERGED:
        yield from ((impl, c, None) for c in chunks)
    yield from (("chunked", c, 2) for c in chunks)
    yield from (("chunked", 2, oc) for oc in range(1, n + 2) if oc != 2)


def n_rows_of(inputs):
    return sum(len(s) for s in inputs)


def explore(inputs, desc, negative, acc):
    nontrivial = negative or M.nontrivial(inputs, desc)
    for fmt in ("tab", "parquet"):
        for impl, c, oc in plan(inputs, desc, negative):
            case = {"impl": impl, "fmt": fmt, "desc": desc, "inputs": [list(s) for s in inputs], "chunk": c,
                    "out_chunk": oc, "negative": negative}
            cls, out = check_case(case, acc)
            if impl != "merge_sort" and n_rows_of(inputs) <= 4 and (c <= 2):
                # the same family with score levels only 3e-5 apart (an inversion is then tiny but real)
                # ... and with levels 8 / 8.5 / 9 written as "8", "8.5", "9" (integer-only chunks next to fractional ones)
                modes = ((True,) if n_rows_of(inputs) <= 3 else ()) + (("half",) if fmt == "tab" else ())
                for fine in modes:
                    case_f = dict(case, fine=fine)
                    cls_f, out_f = check_case(case_f, acc)
                    acc.case(key=(impl, fmt, desc, inputs, c, oc, negative, fine), nontrivial=True, cls=cls_f,
                             outcome=stable_hash([cls_f, [r[0] for r in out_f]]))
                    acc.count("fine_score_levels" if fine is True else "integral_and_fractional_levels")
                M.FINE = False
            if len(inputs) >= 2 and c <= 2 and n_rows_of(inputs) <= 4 and impl in ("merge_sort", "merge_readers", "read"):
                # the inputs carry the same file name in different directories
                case_d = dict(case, layout="dirs")
                cls_d, out_d = check_case(case_d, acc)
                acc.case(key=(impl, fmt, desc, inputs, c, oc, negative, "dirs"), nontrivial=True, cls=cls_d,
                         outcome=stable_hash([cls_d, out_d]))
                acc.count("same_name_in_different_directories")
            if impl == "merge_sort" and c == 2 and n_rows_of(inputs) <= 4:
                # history: the same merge right after another merge was abandoned after 1 / 2 rows
                for k in (1, 2):
                    case2 = dict(case, abandon_first=k)
                    cls2, out2 = check_case(case2, acc)
                    acc.case(key=(impl, fmt, desc, inputs, c, oc, negative, k), nontrivial=True, cls=cls2,
                             outcome=stable_hash([cls2, out2]))
                    acc.count("after_abandoned_merge")
            acc.case(key=(impl, fmt, desc, inputs, c, oc, negative), nontrivial=nontrivial, cls=cls,
                     outcome=stable_hash([cls, out]),
                     sample=dict(case, cls=cls, out_ids=[r[0] for r in out]) if acc.evaluations % 4099 == 11 else None)


def worker(item):
    kind, comp, first, desc = item
    acc = Acc()
    if kind == "eight":
        for fam in M.EIGHT_SINGLES:
            fam = fam if desc else fam[::-1]
            explore(fam, desc, False, acc)
    else:
        gen = M.negative_families if kind == "neg" else M.families
        for fam in gen(comp, first, desc):
            explore(fam, desc, kind == "neg", acc)
    return acc


def run(ctx):
    # (rows max, inputs max below the top row count, inputs max at the top row count)
    pos, neg = ((5, 4, 2), (3, 4, 4)) if ctx.quick else ((6, 4, 3), (5, 4, 2))
    items = [("eight", None, None, desc) for desc in (True, False)]
    for kind, (top, kmax, ktop) in (("pos", pos), ("neg", neg)):
        for n in range(1, top + 1):
            for k in range(1, min(ktop if n == top else kmax, n) + 1):
                for comp in M.compositions(n, k):
                    for desc in (True, False):
                        for first in M.first_inputs(comp[0], desc, kind == "neg"):
                            items.append((kind, comp, first, desc))
    items.sort(key=lambda it: (sum(it[1]) if it[1] else 8, it[0] == "neg"))  # simplest first: smallest counterexample
    ctx.pmap(worker, items, chunksize=1)
    ctx.exhaustive = True
    ctx.info["bound"] = {
        "positive": {"rows_max": pos[0], "inputs_max": pos[1], "inputs_max_at_rows_max": pos[2]},
        "negative": {"rows_max": neg[0], "inputs_max": neg[1], "inputs_max_at_rows_max": neg[2]},
        "scores": list(M.SCORES), "eight_single_row_inputs": len(M.EIGHT_SINGLES), "formats": ["tab", "parquet"],
        "access_paths": ["merge_sort"] + MERGED + ["chunked"],
    }
    ctx.info["explanation"] = (
        f"every family of sorted inputs over scores -1..1 with <= {pos[0]} rows in <= {pos[1]} inputs (at {pos[0]} rows: "
        f"<= {pos[2]} inputs) x text/Parquet x descending/ascending x reader chunk 1..L+1 x 7 access paths; "
        f"negative families with <= {neg[0]} rows (at {neg[0]} rows: <= {neg[2]} inputs)"
    )


def replay(case):
    import tempfile
    from pathlib import Path

    from mc.core import scratch_root

    acc = Acc()
    with tempfile.TemporaryDirectory(prefix="mokaverif_replay_", dir=scratch_root()) as d:
        _POOL.clear()
        _DIR[0] = Path(d)
        try:
            check_case(case, acc)
        finally:
            _POOL.clear()
            _DIR[0] = None
    return acc.violations
