"""C07 - best-feature safety net (E1).

brew() is run over datasets x label encodings x best-feature direction x scripted estimators x formats x override;
the accepted-count rule is evaluated with the C01 reference on the *genuine* target flags, and the returned
(scores, descs) are pushed through assign_confidence to see that the direction is honoured.
"""

from __future__ import annotations

import itertools
import shutil

import numpy as np
import pandas as pd

from mc.core import Acc, Violation, worker_scratch, classify_exception, exc_signature
from mc.datasets import make_dataset, gen_psms, set_chunks, DEFAULT_CHUNKS, read_result, listing
from mc.recorders import make_model, score_log
from mc.ref.tdc import ref_qvalues

PROPERTY = "C07"
SIZE_MODULES = ['mokapot.brew', 'mokapot.dataset', 'mokapot.model']  # see mc.runner._sized_passes
LEVEL = "exploration"
RULE = (
    "case = (dataset: multiplicity vector + scan offset, label encoding 1/-1 | 1/0 | bool, best feature higher- or "
    "lower-is-better, estimator in {learns, constant, inverted, over-fitted (degraded on unseen rows), fully inverted on "
    "unseen rows}, text | Parquet, override flag, test_fdr); full product. Non-trivial iff the estimator is not the "
    "well-behaved one or the feature is lower-is-better (the safety net or the direction must do something); a second "
    "family varies (train_fdr, test_fdr) in {(0.13,0.13),(0.26,0.13),(0.26,0.01)} and adds a weak feature pointing the other way"
)
ASSUMPTIONS = [
    "accepted counts are evaluated by the C01 reference on the generator's own target flags (never by mokapot)",
    "the 'best single feature did during training' count is the feat_pass attribute of the returned models "
    "(public attribute, listed in the property's observation points)",
    "runs that end in one of mokapot's explicit errors (e.g. calibration impossible) are counted, not demanded",
]

EST = ["linear", "proba", "constant", "inverted", "halfoverfit", "overfit", "coarse"]
FDR = 0.13
FDRS = {"eq": (0.13, 0.13), "strict": (0.26, 0.13), "verystrict": (0.26, 0.01)}  # (train_fdr, test_fdr)


def build(case):
    base = case["mults"]
    df, spec = gen_psms([base[i % len(base)] for i in range(72)], offset=case["offset"], label_enc=case["enc"])
    if case["lower"]:
        df["f_key"] = -df["f_key"]  # lower is better; still pairwise distinct
    if case.get("uint"):
        # an unsigned integer rank, 0 = best (lower is better): only Parquet keeps the unsigned dtype
        order = np.argsort(np.argsort(-np.abs(df["f_key"].values)))
        df["f_key"] = order.astype("uint16")
    if case.get("mixed") == "balanced":
        # two about equally good features of opposite direction: the training folds may disagree on the best one
        df["f2"] = [round(-float(v) + 0.004 * ((i * 37) % 11), 4) for i, v in enumerate(df["f_key"])]
    elif case.get("mixed"):
        # a second, much weaker feature pointing the other way: higher is better and it accepts a handful of targets
        # (the first ten high targets get values above everything else), while the best single feature is f_key
        hi = [i for i in range(len(df)) if abs(df.loc[i, "f_key"]) >= 100][:10]
        df.loc[hi, "f2"] = [50.0 + 0.001 * j for j in range(len(hi))]
    return df, spec


def genuine(df, enc):
    if enc == "bool":
        return [bool(x) for x in df["Label"]]
    return [int(x) == 1 for x in df["Label"]]


def accepted(scores, labels, desc, fdr):
    q = ref_qvalues([float(s) for s in scores], labels, desc)
    return sum(1 for (a, b), l in zip(q, labels) if l and a / b <= fdr)


def check_case(case, acc):
    import mokapot
    from mokapot.confidence import assign_confidence

    set_chunks(**DEFAULT_CHUNKS)
    work = worker_scratch().sub()
    sigs = set()

    def add(sig, msg, **kw):
        if sig not in sigs:
            sigs.add(sig)
            acc.violation(Violation(sig, msg, case, **kw))

    try:
        df, spec = build(case)
        labels = genuine(df, case["enc"])
        path = work / ("in.pin" if case["fmt"] == "pin" else "in.parquet")
        train_fdr, FDR = FDRS[case.get("fdr", "eq")]
        if case.get("history"):
            # an earlier analysis of ANOTHER export under the same path (same rows, decoy flags mostly lost): whatever
            # mokapot remembers about that file must not leak into this analysis
            prev = df.copy()
            tgt = True if case["enc"] == "bool" else 1
            # every fourth decoy keeps its flag: enough for training to run, few enough that all-tied scores would
            # "accept" every target of that export at the evaluation FDR
            keep = [i for i in range(len(prev)) if not labels[i]][::4]
            prev["Label"] = [prev["Label"].iloc[i] if (labels[i] or i in keep) else tgt for i in range(len(prev))]
            try:
                ds0 = make_dataset(prev, path, features=["f_key", "f2"], spectrum=spec)
                # (a learner without decision function: no per-fold calibration that could stop this earlier analysis)
                mokapot.brew([ds0], model=make_model("proba", first_only=True, override=True, train_fdr=FDR),
                             test_fdr=FDR, folds=3, max_workers=1, rng=1)
                acc.count("history_prior_analyses_completed")
            except (RuntimeError, ValueError):
                acc.count("history_prior_analyses_refused")
        ds = make_dataset(df, path, features=["f_key", "f2"], spectrum=spec)
        model = make_model(case["est"], first_only=True, override=case["override"], train_fdr=train_fdr)
        try:
            psms, models, scores, descs = mokapot.brew([ds], model=model, test_fdr=FDR, folds=3, max_workers=1, rng=1)
        except Exception as e:
            cls, desc = classify_exception(e)
            if cls == "crash":
                add("crash:" + exc_signature(e), desc)
            return cls
        s = np.asarray(scores[0], dtype=float).ravel()
        if len(s) != len(df):
            add("scores-length", f"{len(s)} scores for {len(df)} PSMs")
            return "result"
        feat_cols = {c: df[c].values.astype(float) for c in ("f_key", "f2")}
        # (a feature read back from a text file may differ from the generated value in the last bit)
        is_feat = [c for c, v in feat_cols.items() if s.shape == v.shape and np.allclose(s, v, rtol=1e-12, atol=0)]
        passes = [(m.feat_pass, i) for i, m in enumerate(models) if m.feat_pass is not None]
        if not passes:
            return "result_no_featpass"
        B = max(p for p, _ in passes)
        best = [models[i] for p, i in passes if p == B]
        # independent oracle for "the best single feature during training": reference counts on each model's training rows
        key_col = df["f_key"].values.astype(float)
        row_of = {float(k): i for i, k in enumerate(key_col)}
        for mi, m in enumerate(models):
            tr = next((e[2] for e in score_log(m, "train")), None)
            if tr is None or m.feat_pass is None:
                continue
            rows = [row_of[k] for k in tr if k in row_of]
            if len(rows) != len(tr):
                continue
            counts = {}
            for f in ("f_key", "f2"):
                vals = df[f].values.astype(float)
                for dsc in (True, False):
                    counts[(f, dsc)] = accepted([vals[i] for i in rows], [labels[i] for i in rows], dsc, train_fdr)
            top = max(counts.values())
            acc.count("best_feature_oracle_evaluations")
            if int(m.feat_pass) != top or counts.get((m.best_feat, bool(m.desc))) != top:
                add("best-feature-is-not-the-best",
                    f"model {mi+1} reports best feature {m.best_feat!r} (desc={m.desc}) accepting {m.feat_pass} training PSMs, but on its "
                    f"training rows the reference counts are {dict((f'{f}/{'desc' if d else 'asc'}', c) for (f, d), c in counts.items())}")
        if not case["override"]:
            if is_feat:
                # fell back: must be the feature of an arg-max model together with its direction
                ok = any(m.best_feat in is_feat and all(d == m.desc for d in descs) for m in best)
                if not ok:
                    add("fallback-wrong-feature-or-direction",
                        f"returned feature {is_feat} with descs {descs}; arg-max models have "
                        f"{[(m.best_feat, m.desc) for m in best]}")
                cls = "fallback"
            else:
                if not all(descs):
                    add("model-scores-with-ascending-flag", f"model scores returned with descs={descs}")
                A = accepted(s, labels, True, FDR)
                if A < B:
                    add("worse-than-best-feature-without-fallback",
                        f"returned model scores accept {A} genuine target(s) at {FDR} but the best single feature accepted "
                        f"{B} during training, and brew did not fall back to it (label encoding {case['enc']}, estimator {case['est']})",
                        expected=f">= {B}", observed=A)
                cls = "model_scores"
        else:
            cls = "override"
        # ---- confidence assignment must honour the returned direction --------------------------------
        if len(set(np.round(s, 12))) < 6:
            return cls + "_degenerate"  # e.g. all-zero scores of an untrained model: PEP estimation is undefined (C06)
        out = work / "out"
        out.mkdir()
        desc = bool(descs[0])
        try:
            assign_confidence(psms, max_workers=1, scores=scores, descs=descs, dest_dir=out, prefixes=[None], decoys=True)
        except Exception as e:
            c2, d2 = classify_exception(e)
            add(("confidence-crash:" if c2 == "crash" else "confidence-raises:") + exc_signature(e) + ("" if desc else ":ascending"), d2)
            return cls
        t = read_result(out / "targets.psms")
        d = read_result(out / "decoys.psms")
        # one PSM per spectrum retained: reference on the retained rows
        sid = dict(zip(df["SpecId"], range(len(df))))
        kept = list(t["PSMId"]) + list(d["PSMId"])
        ks = [float(s[sid[i]]) for i in kept]
        kl = [labels[sid[i]] for i in kept]
        # best PSM per spectrum under the returned direction
        best_of = {}
        for i in range(len(df)):
            key = tuple(df.loc[i, c] for c in spec)
            if key not in best_of or (s[i] > s[best_of[key]] if desc else s[i] < s[best_of[key]]):
                best_of[key] = i
        want_ids = {df.loc[i, "SpecId"] for i in best_of.values()}
        tag = "" if desc else "-ascending"
        if set(kept) != want_ids and len(set(np.round(s, 12))) == len(s):
            add("confidence-competition-ignores-direction" + tag,
                f"descs={descs}: the PSMs kept per spectrum are not the best under the returned direction "
                f"(missing {sorted(want_ids - set(kept))[:3]}, unexpected {sorted(set(kept) - want_ids)[:3]})")
        tsc = list(t["score"].astype(float))
        if tsc and len(set(tsc)) > 1:
            ordered = all((a >= b) if desc else (a <= b) for a, b in zip(tsc, tsc[1:]))
            if not ordered:
                add("confidence-order-ignores-direction" + tag, f"descs={descs}: targets.psms is not ordered best-first: {tsc[:6]}")
        qref = dict(zip(kept, ref_qvalues(ks, kl, desc)))
        for pid, qv in zip(list(t["PSMId"]) + list(d["PSMId"]), list(t["q-value"]) + list(d["q-value"])):
            a, b = qref[pid]
            if abs(float(qv) - a / b) > 1e-6:
                add("confidence-qvalues-ignore-direction" + tag,
                    f"descs={descs}: q-value of {pid} is {qv}; the C01 formula in the returned direction gives {a}/{b}")
                break
        return cls
    finally:
        shutil.rmtree(work, ignore_errors=True)


# ---------------------------------------------------------------------------------------------
# E2: two collections, a learner that cannot learn (the fallback is taken), >= 2 workers: every schedule of every
# pool invocation inside brew must return, for each collection, that collection's own best-feature values
# ---------------------------------------------------------------------------------------------
def e2_body(case, work):
    import mokapot

    frames = []
    for j, off in enumerate(case["offsets"]):
        df, spec = build(dict(mults=case["mults"], offset=off, enc="pm1", lower=case.get("lower", False)))
        df["f_key"] = df["f_key"] * (1.0 + 0.5 * j)  # the collections' feature values are pairwise different
        df["SpecId"] = [f"c{j}_{x}" for x in df["SpecId"]]
        frames.append((df, spec))

    def body():
        set_chunks(**DEFAULT_CHUNKS)
        sub = work / f"e2_{len(list(work.iterdir()))}"
        sub.mkdir()
        try:
            dss = [make_dataset(df, sub / f"in{j}.pin", features=["f_key", "f2"], spectrum=spec) for j, (df, spec) in enumerate(frames)]
            model = make_model(case["est"], first_only=True, override=False, train_fdr=FDR)
            psms, models, scores, descs = mokapot.brew(dss, model=model, test_fdr=FDR, folds=3,
                                                       max_workers=case.get("e2_workers", 2), rng=1)
            owner = []
            for sc in scores:  # which collection's best-feature column is this score vector?
                sc = np.asarray(sc, dtype=float).ravel()
                owner.append(tuple(j for j, (df, _) in enumerate(frames)
                                   if len(df) == len(sc) and np.allclose(sc, df["f_key"].values.astype(float), rtol=1e-12, atol=0)))
            return (tuple(tuple(float(f"{v:.12g}") for v in np.asarray(sc).ravel()) for sc in scores), tuple(bool(d) for d in descs),
                    tuple(owner))
        finally:
            shutil.rmtree(sub, ignore_errors=True)

    return body


def e2_explain(out):
    return f"score vector i carries the best-feature values of collection(s) {list(out[2])} (expected [(0,), (1,), ...]), descs {list(out[1])}"


E2_CASES = [
    {"mults": [1, 2, 1, 1], "offsets": [0, 3], "est": "constant"},
    {"mults": [2, 1, 3, 1], "offsets": [3, 0, 5], "est": "inverted", "lower": True},
]


def worker(item):
    acc = Acc()
    for case in item:
        cls = check_case(case, acc)
        acc.case(key=repr(sorted(case.items())), nontrivial=case["est"] != "linear" or case["lower"], outcome=cls, cls=cls,
                 sample=dict(case, outcome_class=cls) if acc.evaluations % 29 == 1 else None)
    return acc


def run(ctx):
    mvs = [(1, 2, 1, 1), (2, 1, 3, 1)] if ctx.quick else [(1, 2, 1, 1), (2, 1, 3, 1), (1, 1, 1, 2), (3, 1, 2, 1), (1, 1, 1, 1)]
    offsets = (0, 3) if ctx.quick else (0, 1, 3, 6)
    cases = []
    for mv, off, enc, lower, est, fmt, ov in itertools.product(mvs, offsets, ("pm1", "01", "bool"), (False, True), EST,
                                                              ("pin", "parquet"), (False, True)):
        cases.append(dict(mults=list(mv), offset=off, enc=enc, lower=lower, est=est, fmt=fmt, override=ov))
    # evaluation FDR stricter than the training FDR; features pointing in different directions
    for mv, off, lower, est, fdr, mixed in itertools.product(mvs, offsets, (False, True), EST, ("eq", "strict", "verystrict"), (False, True)):
        if fdr == "eq" and not mixed:
            continue
        cases.append(dict(mults=list(mv), offset=off, enc="pm1", lower=lower, est=est, fmt="pin", override=False, fdr=fdr, mixed=mixed))
    for mv, off, lower, est in itertools.product(mvs, (0, 1, 2, 3, 4, 5), (False, True), ("constant", "inverted", "linear")):
        cases.append(dict(mults=list(mv), offset=off, enc="pm1", lower=lower, est=est, fmt="pin", override=False, mixed="balanced"))
    # unsigned integer lower-is-better feature (Parquet) and re-analysis of a re-exported file under the same path
    for mv, off, est in itertools.product(mvs, offsets, EST):
        cases.append(dict(mults=list(mv), offset=off, enc="pm1", lower=True, est=est, fmt="parquet", override=False, uint=True))
        for fmt in ("pin", "parquet"):
            cases.append(dict(mults=list(mv), offset=off, enc="pm1", lower=False, est=est, fmt=fmt, override=False, history=True))
    cases = ctx.rotate(cases)
    items = [cases[i:i + 10] for i in range(0, len(cases), 10)]
    ctx.seed = 0
    ctx.pmap(worker, items)
    # E2: the fallback with several collections under every schedule of every pool invocation (<= 1 / 2 preemptions)
    from mc import e2drv

    def bounds(focus, quick=ctx.quick):
        return (1, "task") if quick else (2, "task")

    infos = e2drv.run_all(ctx, "checks.c07_bestfeat", E2_CASES[: 1 if ctx.quick else 2], bounds)
    for info in infos:
        ref = e2_body(dict(info["case"], e2_workers=1), worker_scratch().sub())()
        if ref[2] != tuple((j,) for j in range(len(info["case"]["offsets"]))):
            ctx.acc.violation(Violation("fallback-scores-of-other-collection", "sequential run with several collections and a learner "
                                        f"that cannot learn: {e2_explain(ref)}", {"e2": info["case"], "focus": -1, "schedule": []}))
    ex = ctx.acc.extra
    ctx.info["states"] = ex.get("e2_executions", 0)
    ctx.info["transitions"] = ex.get("e2_transitions", 0)
    ctx.info["traces_validated_against_impl"] = ex.get("e2_executions", 0)
    ctx.info["e2"] = infos
    ctx.exhaustive = True
    ctx.info["bound"] = {"datasets": len(mvs) * len(offsets), "cases": len(cases), "e2_preemption_bound": 1 if ctx.quick else 2}


def replay(case):
    acc = Acc()
    if "e2" in case:
        from mc import e2drv

        differs, reproducible, exc = e2drv.replay("checks.c07_bestfeat", case)
        if not reproducible:
            acc.violation(Violation("harness-nondeterministic-replay", "same schedule, different observations", case))
        elif differs:
            acc.violation(Violation("schedule-changes-result", "replayed schedule differs from sequential", case))
        return acc.violations
    check_case(case, acc)
    return acc.violations
