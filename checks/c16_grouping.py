"""C16 - protein grouping of read_fasta is the maximal-subset grouping with a consistent peptide map (E1 + E4).

Space (bounded, exhaustive): proteins are subsets of four fixed tryptic peptides (a protein is the
concatenation of its peptides; the empty subset is a too-short sequence that yields no peptide);
every multiset of <= 4 proteins, every entry order of the FASTA file.  Further families: mirrored
decoys built from decoy counterparts of the peptides, decoy-named entries that share peptides with
targets, targets without decoy, a second decoy prefix, and missed_cleavages 1/2 over proteins that
are *ordered* tuples of peptides (the joins are additional peptides).
E4: the name `set` inside mokapot.parsers.fasta is shadowed by mc.itersets.ControlledSet; every
iteration of a set with >= 2 elements is a choice point; 0, 1 (quick) and 2 (thorough, smaller
structures) non-default orders per execution.  Cross-process conformance: fresh interpreters with
PYTHONHASHSEED 0..7 must land inside the explored outcome set.
Oracle: mc/ref/grouping.py (clauses of the statement on groups reconstructed from
peptide_map U shared_peptides) + equality of the canonical (order-free) grouping across entry
orders, iteration orders and hash seeds.
"""

from __future__ import annotations

import itertools
import json
import os
import subprocess
import sys

from mc.core import Acc, Violation, worker_scratch, classify_exception, exc_signature, REPO
from mc import itersets
from mc.ref.digest import ref_digest
from mc.ref.grouping import check_grouping

PROPERTY = "C16"
SIZE_MODULES = ['mokapot.parsers.fasta', 'mokapot.proteins']  # see mc.runner._sized_passes
LEVEL = "exploration"
RULE = (
    "case = one execution of read_fasta: (FASTA entries in file order, each a name and a tuple of peptide tokens; "
    "missed cleavages; decoy prefix; mode = real hash order | forced iteration-order choices | fresh interpreter with "
    "a hash seed). Entries are enumerated as every multiset of proteins (up to renaming) x every entry order, "
    "simplest first. Non-trivial iff at least two proteins yield peptides and either one protein's peptide set is "
    "contained in (or equal to) another's or some peptide occurs in two proteins (something has to be grouped or "
    "declared shared). Distinct by (entries in order, digest setting, prefix, mode); E4 deviation runs are distinct "
    "by construction and counted."
)
ASSUMPTIONS = [
    "protein names are distinct and contain neither ', ' nor '; ' (the group / shared-peptide strings are split on them)",
    "the peptide set of a protein is computed by the digest reference of C17 (mc/ref/digest.py), enzyme [KR], "
    "min_length 6, max_length 50 (family length-limits: 7/50 and 6/7, i.e. peptides exactly as long as a limit), no clipping, not semi",
    "a database in which no target protein yields a peptide is outside the property (read_fasta refuses it)",
    "a protein contained in two maximal proteins is required to be in at least one of the two groups (the statement "
    "says 'belongs to a protein group'); joining only one is caught only through the order-independence clause",
    "E4 controls sets created through the module-global name `set` of mokapot.parsers.fasta and everything derived "
    "from them; dict order follows insertion order and is covered by the entry-order enumeration",
    "the order of names inside a group string and of groups inside a shared_peptides value is not compared",
]

TP = ["ACDEFGK", "HILMNPK", "QSTVWYK", "AGILSTR"]
DP = [p[:-1][::-1] + p[-1] for p in TP]  # decoy counterparts: reversed interior, same C-terminal residue
PEPS = TP + DP  # token i -> peptide
EMPTY_SEQ = "GGK"  # shorter than min_length: yields no peptide
MIN_LEN, MAX_LEN, ENZYME = 6, 50, "[KR]"
LIMITS = [MIN_LEN, MAX_LEN]  # the (min_length, max_length) in force; the length-limits family uses (7, 50) and (6, 7)
HASHSEEDS = list(range(8))

_PP_CACHE = {}


# ---------------------------------------------------------------------------------------------------
# building blocks
# ---------------------------------------------------------------------------------------------------
def sequence(tokens):
    return "".join(PEPS[t] for t in tokens) or EMPTY_SEQ


def fasta_text(entries):
    return "".join(f">{name}\n{sequence(tokens)}\n" for name, tokens in entries)


def peptides_of(tokens, mc):
    key = (tuple(tokens), mc, tuple(LIMITS))
    r = _PP_CACHE.get(key)
    if r is None:
        must, allowed = ref_digest(sequence(tokens), ENZYME, mc, LIMITS[0], LIMITS[1], False, False)
        assert must == allowed
        if mc == 0:
            assert must == {PEPS[t] for t in tokens}, (tokens, must)
        r = _PP_CACHE[key] = frozenset(must)
    return r


def prot_peps_of(entries, mc):
    return {name: peptides_of(tokens, mc) for name, tokens in entries}


def nontrivial(pp):
    sets = [s for s in pp.values() if s]
    for i, a in enumerate(sets):
        for b in sets[i + 1:]:
            if a & b:
                return True
    return False


def in_domain(pp, prefix):
    return any(s and not p.startswith(prefix) for p, s in pp.items())


def read(path, mc, prefix, explorer=None):
    """One execution of the real read_fasta.  -> ('result', peptide_map, shared, protein_map) | ('raised', exc)."""
    import mokapot
    import mokapot.parsers.fasta as fasta_module

    kw = dict(missed_cleavages=mc, min_length=LIMITS[0], max_length=LIMITS[1], enzyme=ENZYME, decoy_prefix=prefix)
    try:
        if explorer is None:
            p = mokapot.read_fasta(str(path), **kw)
        else:
            with itersets.shadow_set(fasta_module, explorer):
                p = mokapot.read_fasta(str(path), **kw)
        return ("result", dict(p.peptide_map), dict(p.shared_peptides), dict(p.protein_map))
    except itersets.ReplayDivergence:
        raise
    except Exception as e:
        return ("raised", e)


_SUB = r"""
import json, sys, logging, warnings
warnings.filterwarnings("ignore"); logging.disable(logging.CRITICAL)
req = json.load(sys.stdin)
if req["repo"] != "/repo":
    sys.path.insert(0, req["repo"])
import mokapot
assert mokapot.__file__.startswith(req["repo"]), mokapot.__file__
out = []
for c in req["cases"]:
    try:
        p = mokapot.read_fasta(c["path"], missed_cleavages=c["mc"], min_length=c["min"], max_length=c["max"],
                               enzyme=c["enzyme"], decoy_prefix=c["prefix"])
        out.append({"peptide_map": dict(p.peptide_map), "shared": dict(p.shared_peptides),
                    "protein_map": dict(p.protein_map)})
    except Exception as e:
        out.append({"raised": type(e).__name__ + ": " + str(e)})
print("@@" + json.dumps(out))
"""


def read_in_fresh_interpreter(paths_cases, hashseed):
    """read_fasta on several files in ONE fresh interpreter with the given hash seed."""
    req = {"repo": str(REPO), "cases": [dict(path=str(p), mc=c["mc"], prefix=c["prefix"], min=LIMITS[0], max=LIMITS[1],
                                             enzyme=ENZYME) for p, c in paths_cases]}
    env = dict(os.environ, PYTHONHASHSEED=str(hashseed), PYTHONWARNINGS="ignore")
    r = subprocess.run(["/venv/bin/python", "-c", _SUB], input=json.dumps(req), capture_output=True, text=True,
                       env=env, timeout=600)
    lines = [l for l in r.stdout.splitlines() if l.startswith("@@")]
    if r.returncode != 0 or not lines:
        raise RuntimeError(f"fresh interpreter failed (rc={r.returncode}): {r.stderr[-800:]}")
    outs = []
    for o in json.loads(lines[-1][2:]):
        if "raised" in o:
            outs.append(("raised-remote", o["raised"]))
        else:
            outs.append(("result", o["peptide_map"], o["shared"], o["protein_map"]))
    return outs


def scratch():
    """Worker scratch; a stand-alone replay (pytest on the generated test file) has no run-level root yet."""
    if "VERIF_SCRATCH" not in os.environ:
        import atexit
        import shutil
        import tempfile
        from mc.core import scratch_root

        root = tempfile.mkdtemp(prefix="mokaverif_C16replay_", dir=scratch_root())
        os.environ["VERIF_SCRATCH"] = root
        atexit.register(shutil.rmtree, root, ignore_errors=True)
    return worker_scratch()


def report(acc, signature, message, case, expected=None, observed=None):
    acc.count("viol:" + signature)
    if acc.extra["viol:" + signature] <= 6:
        acc.violation(Violation(signature, message, case, expected, observed))
    else:
        acc.n_violations += 1


def judge(case, outcome, pp, acc):
    """Apply the single-result clauses.  Returns (class, canonical JSON string or None)."""
    prefix = case["prefix"]
    dom = in_domain(pp, prefix)
    if outcome[0] == "raised-remote":
        if dom:
            report(acc, "read-fasta-raises:" + outcome[1].split(":")[0],
                   f"read_fasta raised {outcome[1]} in a fresh interpreter", case)
        return ("raised" if dom else "refused_outside_domain"), None
    if outcome[0] == "raised":
        e = outcome[1]
        cls, desc = classify_exception(e)
        if dom:
            report(acc, "read-fasta-raises:" + exc_signature(e), f"read_fasta raised {desc} although a target "
                   "protein yields a peptide", case)
            return cls, None
        return "refused_outside_domain", None
    _, pm, sp, prm = outcome
    problems, canon = check_grouping(pp, prefix, pm, sp, prm)
    seen = set()
    for sig, msg in problems:
        if sig not in seen:
            seen.add(sig)
            report(acc, sig, msg, case, observed={"peptide_map": pm, "shared_peptides": sp, "protein_map": prm})
    return "result", json.dumps(canon, sort_keys=True)


def make_case(entries, mc, prefix, family, **kw):
    if LIMITS != [MIN_LEN, MAX_LEN]:
        kw["limits"] = list(LIMITS)
    return dict(entries=[[n, list(t)] for n, t in entries], mc=mc, prefix=prefix, family=family, **kw)


def case_key(case):
    return hash((tuple((n, tuple(t)) for n, t in case["entries"]), case["mc"], case["prefix"],
                 json.dumps(case.get("e4"), sort_keys=True), case.get("hashseed"), tuple(case.get("limits", ()))))


# ---------------------------------------------------------------------------------------------------
# one structure: all its entry orders (plain) and, optionally, E4 on some of them
# ---------------------------------------------------------------------------------------------------
def explore_structure(spec, acc, scratch_dir):
    """spec = dict(entries, mc, prefix, family, orders='all'|[perm...], e4_dev=None|1|2, e4_orders='first'|'first+reversed'|'all')."""
    entries = [(n, tuple(t)) for n, t in spec["entries"]]
    mc, prefix, family = spec["mc"], spec["prefix"], spec["family"]
    LIMITS[:] = spec.get("limits", (MIN_LEN, MAX_LEN))
    pp = prot_peps_of(entries, mc)
    nt = nontrivial(pp)
    k = len(entries)
    perms = list(itertools.permutations(range(k))) if spec["orders"] == "all" else [tuple(p) for p in spec["orders"]]
    base_entries = [entries[i] for i in perms[0]]
    base_canon = None
    path = scratch_dir / "db.fasta"
    e4_dev = spec.get("e4_dev")
    e4_perms = e4_order_set(spec, k)
    for oi, perm in enumerate(perms):
        ordered = [entries[i] for i in perm]
        path.write_text(fasta_text(ordered))
        case = make_case(ordered, mc, prefix, family)
        if oi:
            case["base_entries"] = [[n, list(t)] for n, t in base_entries]
        cls, canon = judge(case, read(path, mc, prefix), pp, acc)
        acc.count("plain_runs")
        acc.case(key=case_key(case), nontrivial=nt, outcome=canon, cls=cls,
                 sample=dict(case, grouping=json.loads(canon)) if canon and nt and acc.evaluations % 9973 == 5 else None)
        if canon is not None:
            if base_canon is None:
                base_canon, base_entries = canon, ordered
            elif canon != base_canon:
                case["base_entries"] = [[n, list(t)] for n, t in base_entries]
                report(acc, "grouping-depends-on-entry-order",
                       f"entries {[n for n, _ in ordered]} and {[n for n, _ in base_entries]} of the same database give "
                       "different groupings", case, expected=json.loads(base_canon), observed=json.loads(canon))
        # ---- E4 on this entry order -------------------------------------------------------------
        if e4_dev is not None and perm in e4_perms:
            plain_canon = canon

            def execute(ex):
                return read(path, mc, prefix, ex)

            for ex, out in itersets.explore(execute, e4_dev):
                ndev = len(ex.forced)
                ecase = make_case(ordered, mc, prefix, family, e4={"forced": ex.forced, "expect": ex.trace[:max(ex.forced) + 1] if ex.forced else []})
                cls2, canon2 = judge(ecase, out, pp, acc)
                acc.count(f"e4_runs_dev{ndev}")
                if ndev == 0:
                    acc.count("e4_choice_points", len(ex.trace))
                acc.count("e4_nondefault_orders_delivered", ex.delivered)
                acc.case(key=None, nontrivial=nt, outcome=canon2, cls=cls2)
                if plain_canon is not None and canon2 is not None and canon2 != plain_canon:
                    report(acc, "grouping-depends-on-set-order",
                           f"iteration-order choices {ex.forced} (entries {[n for n, _ in ordered]}) change the grouping",
                           ecase, expected=json.loads(plain_canon), observed=json.loads(canon2))
                elif (plain_canon is None) != (canon2 is None) and in_domain(pp, prefix):
                    report(acc, "result-depends-on-set-order", f"iteration-order choices {ex.forced}: one execution "
                           "returned a result, the other raised", ecase)


def e4_order_set(spec, k):
    """Entry orders on which the iteration-order exploration runs: 'first', 'first+reversed' or 'all'."""
    which = spec.get("e4_orders", "first")
    ident = tuple(range(k))
    if which == "all":
        return set(itertools.permutations(range(k)))
    if which == "first+reversed":
        return {ident, ident[::-1]}
    return {ident}


def check_case(case, acc):
    """Re-run exactly one recorded case (and the execution it is compared with)."""
    sc = scratch()
    d = sc.sub()
    try:
        entries = [(n, tuple(t)) for n, t in case["entries"]]
        mc, prefix = case["mc"], case["prefix"]
        LIMITS[:] = case.get("limits", (MIN_LEN, MAX_LEN))
        pp = prot_peps_of(entries, mc)
        path = d / "db.fasta"
        path.write_text(fasta_text(entries))
        plain = read(path, mc, prefix)
        if case.get("hashseed") is not None:
            return conformance_one(case, acc, d)
        if case.get("e4"):
            _, pc = judge(make_case(entries, mc, prefix, case["family"]), plain, pp, Acc())
            e4 = case["e4"]
            ex, out = itersets.run_forced(lambda ex: read(path, mc, prefix, ex), e4["forced"], e4.get("expect") or None)
            cls, canon = judge(case, out, pp, acc)
            if pc is not None and canon is not None and pc != canon:
                report(acc, "grouping-depends-on-set-order", f"iteration-order choices {ex.forced} change the grouping",
                       case, expected=json.loads(pc), observed=json.loads(canon))
            elif (pc is None) != (canon is None) and in_domain(pp, prefix):
                report(acc, "result-depends-on-set-order", "one execution returned a result, the other raised", case)
            return canon
        cls, canon = judge(case, plain, pp, acc)
        if case.get("base_entries") and canon is not None:
            base = [(n, tuple(t)) for n, t in case["base_entries"]]
            bpath = d / "base.fasta"
            bpath.write_text(fasta_text(base))
            _, bc = judge(make_case(base, mc, prefix, case["family"]), read(bpath, mc, prefix), prot_peps_of(base, mc), Acc())
            if bc is not None and bc != canon:
                report(acc, "grouping-depends-on-entry-order", "two entry orders of the same database give different "
                       "groupings", case, expected=json.loads(bc), observed=json.loads(canon))
        return canon
    finally:
        sc.clean(d)


# ---------------------------------------------------------------------------------------------------
# cross-process conformance of the shadowing
# ---------------------------------------------------------------------------------------------------
def conformance_structures():
    S = []

    def add(names, toks, mc=0, prefix="decoy_"):
        ent = list(zip(names, toks))
        S.append((ent, mc, prefix))
        S.append((ent[::-1], mc, prefix))

    n4 = ["P1", "P2", "P3", "P4"]
    add(n4, [(0, 1), (1, 2), (1,), (1,)])  # subset of two maximal proteins, twice
    add(n4, [(0, 1, 2, 3), (0, 1, 2), (0, 1), (0,)])  # chain
    add(n4, [(0, 1), (0, 1), (0, 1), (0, 1)])  # equal sets
    add(n4, [(0, 1, 2), (1, 2, 3), (1, 2), (2,)])
    add(n4, [(0, 1), (2, 3), (0, 2), (1, 3)])  # nothing unique
    add(n4[:3], [(0, 1, 2, 3), (0, 1, 2, 3), (3,)])
    add(["P1", "P2", "decoy_P1", "decoy_P2"], [(0, 1), (1,), (4, 5), (5,)])  # mirrored decoys
    add(["P1", "decoy_P1", "P2", "decoy_P2"], [(0, 1), (1, 2), (1,), (1,)])  # decoys share peptides with targets
    add(["P1", "P2", "P3"], [(0, 1, 2), (1, 2), (2, 1)], mc=1)  # joins as additional peptides
    add(["P1", "P2", "rev_P1", "rev_P2"], [(0, 1), (0,), (4, 5), (4,)], prefix="rev_")
    return S


def explored_set(path, entries, mc, prefix, pp, dev=1):
    """Canonical groupings reachable in-process: real hash order + every E4 run up to `dev` deviations."""
    quiet = Acc()
    case = make_case(entries, mc, prefix, "conformance")
    out = {judge(case, read(path, mc, prefix), pp, quiet)[1]}
    n = 0
    for ex, o in itersets.explore(lambda ex: read(path, mc, prefix, ex), dev):
        out.add(judge(case, o, pp, quiet)[1])
        n += 1
    return out, n


def conformance_one(case, acc, d):
    entries = [(n, tuple(t)) for n, t in case["entries"]]
    mc, prefix, seed = case["mc"], case["prefix"], case["hashseed"]
    pp = prot_peps_of(entries, mc)
    path = d / "conf.fasta"
    path.write_text(fasta_text(entries))
    explored, n = explored_set(path, entries, mc, prefix, pp)
    (out,) = read_in_fresh_interpreter([(path, case)], seed)
    cls, canon = judge(case, out, pp, acc)
    if canon not in explored:
        report(acc, "hashseed-outcome-not-explored",
               f"PYTHONHASHSEED={seed} produced a grouping outside the {len(explored)} explored outcome(s)", case,
               expected=[json.loads(c) for c in explored if c], observed=json.loads(canon) if canon else None)
    return canon


def conformance_worker(seed):
    acc = Acc()
    sc = scratch()
    d = sc.sub()
    try:
        structs = conformance_structures()
        todo = []
        for i, (entries, mc, prefix) in enumerate(structs):
            path = d / f"c{i}.fasta"
            path.write_text(fasta_text(entries))
            todo.append((path, make_case(entries, mc, prefix, "conformance", hashseed=seed)))
        outs = read_in_fresh_interpreter(todo, seed)
        for (path, case), out in zip(todo, outs):
            entries = [(n, tuple(t)) for n, t in case["entries"]]
            pp = prot_peps_of(entries, case["mc"])
            explored, n = explored_set(path, entries, case["mc"], case["prefix"], pp)
            cls, canon = judge(case, out, pp, acc)
            acc.count("hashseed_runs")
            acc.count("hashseed_explored_set_size", len(explored))
            acc.case(key=case_key(case), nontrivial=nontrivial(pp), outcome=canon, cls=cls)
            if canon not in explored:
                report(acc, "hashseed-outcome-not-explored",
                       f"PYTHONHASHSEED={seed} produced a grouping outside the {len(explored)} explored outcome(s)",
                       case, expected=[json.loads(c) for c in explored if c],
                       observed=json.loads(canon) if canon else None)
    finally:
        sc.clean(d)
    return acc


# ---------------------------------------------------------------------------------------------------
# enumeration
# ---------------------------------------------------------------------------------------------------
def subsets(npep, base=0):
    out = []
    for r in range(npep + 1):
        out += [tuple(base + i for i in c) for c in itertools.combinations(range(npep), r)]
    return out


def ordered_tuples(npep):
    out = []
    for r in range(npep + 1):
        out += list(itertools.permutations(range(npep), r))
    return out


def multisets(alphabet, k):
    return list(itertools.combinations_with_replacement(alphabet, k))


def mirror(tokens):
    return tuple(t + 4 for t in tokens)


def name_assignments(names, ms):
    """Distinct ways of giving the names to the proteins of the multiset `ms`."""
    seen, out = set(), []
    for perm in itertools.permutations(names):
        ent = tuple(zip(perm, ms))
        key = frozenset(ent)
        if key not in seen:
            seen.add(key)
            out.append(list(ent))
    return out


FEW_ORDERS_6 = [(0, 1, 2, 3, 4, 5), (5, 4, 3, 2, 1, 0), (0, 1, 2, 5, 4, 3), (3, 4, 5, 0, 1, 2), (0, 3, 1, 4, 2, 5),
                (3, 0, 4, 1, 5, 2), (2, 1, 0, 3, 4, 5), (1, 2, 0, 5, 3, 4), (0, 4, 2, 3, 1, 5), (5, 0, 4, 1, 3, 2),
                (1, 0, 2, 4, 5, 3), (4, 5, 3, 1, 2, 0)]


def specs(quick):
    """All structure specs, simplest first."""
    S = []
    sub4 = subsets(4)
    # F1 plain: <= 4 proteins over 4 peptides, all entry orders; E4 bound 1 on the first entry order (quick) /
    # on the first and the reversed (thorough), bound 2 for <= 3 proteins (thorough)
    for k in range(1, 5):
        for ms in multisets(sub4, k):
            ent = [(f"P{i + 1}", t) for i, t in enumerate(ms)]
            if quick:
                dev, e4o = 1, "first+reversed"
            else:
                dev, e4o = (2, "first") if k <= 3 else (1, "all")
            S.append(dict(entries=ent, mc=0, prefix="decoy_", family="plain", orders="all", e4_dev=dev, e4_orders=e4o))
    # F2 mirrored decoys: t targets + their decoys built from the counterpart peptides
    for t in (1, 2, 3):
        for ms in multisets(sub4, t):
            ent = [(f"P{i + 1}", tk) for i, tk in enumerate(ms)] + [(f"decoy_P{i + 1}", mirror(tk)) for i, tk in enumerate(ms)]
            orders = "all" if (t <= 2 or not quick) else FEW_ORDERS_6
            S.append(dict(entries=ent, mc=0, prefix="decoy_", family="mirrored-decoys", orders=orders,
                          e4_dev=1 if t <= 2 else None, e4_orders="first"))
    # F3 decoy-named entries over the SAME peptides (decoys share peptides with targets), targets without decoy,
    # decoys without target
    schemes = {2: [("P1", "decoy_P1")], 3: [("P1", "P2", "decoy_P1"), ("P1", "decoy_P1", "decoy_P2")],
               4: [("P1", "P2", "decoy_P1", "decoy_P2"), ("P1", "P2", "P3", "decoy_P1")]}
    sub3 = subsets(3)
    for k in (2, 3, 4):
        for names in schemes[k]:
            for ms in multisets(sub4 if (k <= 3 or not quick) else sub3, k):
                small = all(max(t, default=0) <= 2 for t in ms)
                for ent in name_assignments(names, ms):
                    if k <= 3 or (small and not quick):
                        orders = "all"
                    else:
                        orders = [tuple(range(k)), tuple(reversed(range(k)))]
                    S.append(dict(entries=ent, mc=0, prefix="decoy_", family="decoys-sharing", orders=orders))
    # F4 another prefix
    for t in (1, 2):
        for ms in multisets(sub4 if not quick else sub3, t):
            ent = [(f"P{i + 1}", tk) for i, tk in enumerate(ms)] + [(f"rev_P{i + 1}", mirror(tk)) for i, tk in enumerate(ms)]
            S.append(dict(entries=ent, mc=0, prefix="rev_", family="other-prefix", orders="all"))
            ent2 = [(f"P{i + 1}", tk) for i, tk in enumerate(ms)] + [(f"decoy_P{i + 1}", mirror(tk)) for i, tk in enumerate(ms)]
            S.append(dict(entries=ent2, mc=0, prefix="rev_", family="other-prefix", orders="all"))
    # F5 missed cleavages 1 and 2: proteins are ordered tuples of peptides, the joins are peptides of their own
    ot = ordered_tuples(3)
    for mc in (1, 2):
        for k in (1, 2, 3):
            if k == 3 and mc == 2 and quick:
                continue
            for ms in multisets(ot, k):
                ent = [(f"P{i + 1}", t) for i, t in enumerate(ms)]
                S.append(dict(entries=ent, mc=mc, prefix="decoy_", family=f"mc{mc}", orders="all",
                              e4_dev=1 if (mc == 1 and k <= 2) else None, e4_orders="first"))
    # F6 length limits on the boundary: every peptide is exactly min_length (7, 50) or exactly max_length (6, 7) long, so
    # a one-peptide protein is as long as the limit; with targets only, and with mirrored decoys
    for limits in ((7, 50), (6, 7)):
        for k in (1, 2, 3):
            for ms in multisets(sub4 if k <= 2 or not quick else sub3, k):
                ent = [(f"P{i + 1}", t) for i, t in enumerate(ms)]
                S.append(dict(entries=ent, mc=0, prefix="decoy_", family="length-limits", orders="all", limits=limits))
                if k <= 2:
                    ent2 = ent + [(f"decoy_P{i + 1}", mirror(tk)) for i, tk in enumerate(ms)]
                    S.append(dict(entries=ent2, mc=0, prefix="decoy_", family="length-limits", orders="all", limits=limits))
                    S.append(dict(entries=ent, mc=1, prefix="decoy_", family="length-limits", orders="all", limits=limits))
    if not quick:
        ot4 = ordered_tuples(4)
        for k in (1, 2):
            for ms in multisets(ot4, k):
                ent = [(f"P{i + 1}", t) for i, t in enumerate(ms)]
                S.append(dict(entries=ent, mc=1, prefix="decoy_", family="mc1-4pep", orders="all"))
    return S


def worker(item):
    kind, payload = item
    LIMITS[:] = (MIN_LEN, MAX_LEN)
    if kind == "conformance":
        return conformance_worker(payload)
    acc = Acc()
    sc = scratch()
    d = sc.sub()
    try:
        for spec in payload:
            explore_structure(spec, acc, d)
            acc.count("structures")
            acc.count("structures:" + spec["family"])
    finally:
        sc.clean(d)
    return acc


def run(ctx):
    S = specs(ctx.quick)
    # cost-balanced batches: E4 structures are ~100x a plain one
    items, cur, w = [], [], 0
    for s in S:
        k = len(s["entries"])
        n_e4 = len(e4_order_set(s, k)) if s.get("e4_dev") else 0
        per = sum(len(t) ** 3 for _, t in s["entries"]) + 5  # rough number of single deviations
        cost = 1 + n_e4 * (per if s.get("e4_dev") == 1 else per * per // 2)
        cur.append(s)
        w += cost
        if w >= 1500:
            items.append(("structures", cur))
            cur, w = [], 0
    if cur:
        items.append(("structures", cur))
    items = [("conformance", s) for s in HASHSEEDS] + items[::-1]  # long items first
    ctx.pmap(worker, items)
    ctx.exhaustive = True
    fam = {}
    for s in S:
        fam[s["family"]] = fam.get(s["family"], 0) + 1
    ctx.info["bound"] = {
        "proteins_max": 4, "peptides_max": 4, "structures_per_family": fam,
        "entry_orders": "all k! (6-entry mirrored databases: 12 fixed orders in quick, all 720 in thorough; 4-entry "
                        "decoy-sharing databases: first+reversed in quick)",
        "e4_deviation_bound": "1 on the first and the reversed entry order of every plain structure" if ctx.quick else
                              "2 for <= 3 proteins (first entry order), 1 on all 24 entry orders for 4 proteins",
        "hash_seeds": HASHSEEDS, "conformance_structures": len(conformance_structures()),
    }
    c = ctx.acc.extra
    ctx.info["e4"] = {"choice_points_in_default_runs": c.get("e4_choice_points", 0),
                      "runs_dev0": c.get("e4_runs_dev0", 0), "runs_dev1": c.get("e4_runs_dev1", 0),
                      "runs_dev2": c.get("e4_runs_dev2", 0),
                      "nondefault_orders_delivered": c.get("e4_nondefault_orders_delivered", 0)}
    ctx.info["traces_validated_against_impl"] = ctx.acc.evaluations


def replay(case):
    acc = Acc()
    check_case(case, acc)
    return acc.violations
