"""C05 - results do not depend on chunk sizes, worker count, thread timing or file format (E1 + E2).

Differential oracle: every execution (brew -> assign_confidence, and read_pin) in a deviating configuration must
reproduce the reference execution (all chunks larger than the file, one worker, text input).
"""

from __future__ import annotations

import itertools
import shutil

import numpy as np
import pandas as pd

from mc.core import Acc, Violation, worker_scratch, classify_exception, exc_signature
from mc.datasets import make_dataset, gen_psms, set_chunks, DEFAULT_CHUNKS, write_table, read_result, listing
from mc.recorders import make_model
from mc import sched

PROPERTY = "C05"
SIZE_MODULES = ['mokapot.confidence', 'mokapot.brew', 'mokapot.utils', 'mokapot.parsers.pin', 'mokapot.streaming', 'mokapot.tabular_data', 'mokapot.dataset']  # see mc.runner._sized_passes
LEVEL = "model_checking"
RULE = (
    "E1: case = (designed dataset, de-duplication flag, deviations from the reference configuration over the four "
    "streaming chunk-size constants (every value 1..n+1 singly; {1,2,3,5,n-1,n,n+1} in pairs/triples), input format "
    "(text / Parquet with every row-group size), worker count 1..16 on real joblib); read_pin separately over its "
    "column/row scan chunks. Non-trivial iff some chunk size is smaller than the table (the file is actually cut). "
    "E2: every schedule with <= bound preemptions of each pool invocation of read_pin, brew and assign_confidence; "
    "states = executions (schedule prefixes) run on the real code, transitions = scheduling decisions"
)
ASSUMPTIONS = [
    "no score ties between different rows of one spectrum/peptide group (the order in which chunk files are merged "
    "would otherwise pick another tied winner, which C03 allows)",
    "floating point: scores compared at 1e-9 relative, q-values and PEPs at 1e-6; between text and Parquet input PEPs are "
    "compared at 5e-2 because the text path re-parses scores with pandas' fast float parser (1 ulp off) and the "
    "qvality estimator amplifies 1e-16 score differences to ~1e-3 (measured); within one format PEPs must agree to 1e-6; rows with exactly equal scores "
    "may appear in any order",
    "chunk-wise CSV dtype inference (a column that looks integer in one chunk only) is outside the alphabet",
    "third-party code runs atomically between scheduling points",
]

E2_BUDGET = 40  # executions per E2 work item before the rest of the subtree is re-queued
BREW_CONSTS = ["CONFIDENCE_CHUNK_SIZE", "MERGE_SORT_CHUNK_SIZE", "CHUNK_SIZE_ROWS_PREDICTION", "CHUNK_SIZE_READ_ALL_DATA"]
PIN_CONSTS = ["CHUNK_SIZE_COLUMNS_FOR_DROP_COLUMNS", "CHUNK_SIZE_ROWS_FOR_DROP_COLUMNS"]


def dataset(name):
    """Designed tables: duplicate-spectrum PSMs adjacent (A), far apart (B), with an exact duplicate row (C), spectra that
    differ in the last of three key columns only (D)."""
    if name == "A":
        df, spec = gen_psms([2, 1, 3, 1, 1, 2, 1, 1, 2, 1, 1, 1, 3, 1, 1, 2, 1, 1], offset=2)
    elif name == "B":
        df, spec = gen_psms([2, 1, 2, 1, 1, 2, 1, 1, 2, 1, 1, 1, 2, 1, 1, 2, 1, 1, 1, 1], offset=5)
        # move the second PSM of every multi-PSM spectrum to the end of the file
        first = ~df.duplicated(subset=["ScanNr"], keep="first")
        df = pd.concat([df[first], df[~first]]).reset_index(drop=True)
    elif name == "C":
        df, spec = gen_psms([1, 2, 1, 1, 3, 1, 1, 1, 2, 1, 1, 1, 1, 2, 1, 1, 1, 1, 1], offset=3)
        df = pd.concat([df.iloc[:7], df.iloc[[3]], df.iloc[7:], df.iloc[[3]]]).reset_index(drop=True)  # exact duplicates
    elif name == "D":
        # three-column spectrum key; neighbouring spectra share scan number and retention time (chimeric scan)
        df, spec = gen_psms([2, 1, 1, 2, 1, 1, 2, 1, 1, 1, 2, 1, 1, 2, 1, 1, 1, 1, 2, 1], offset=4, key_cols=3, chimeric=True)
    else:
        raise KeyError(name)
    return df, spec


def n_rows(name):
    return len(dataset(name)[0])


def pipeline(case, work, workers=None):
    """brew -> assign_confidence under the case's configuration. Returns dict(scores, files)."""
    import mokapot
    from mokapot.confidence import assign_confidence

    cfg = case["config"]
    names = case["data"] if isinstance(case["data"], list) else [case["data"]]
    chunks = dict(DEFAULT_CHUNKS)
    chunks.update({k: v for k, v in cfg.items() if k in DEFAULT_CHUNKS})
    set_chunks(**chunks)
    try:
        fmt = cfg.get("fmt", "pin")
        dsets = []
        for i, nm in enumerate(names):
            df, spec = dataset(nm)
            if i:  # second file of a joint run: other ids, same columns
                df = df.assign(SpecId=[f"g{i}_{j}" for j in range(len(df))], f_key=df["f_key"] + 0.003 * i)
            p = work / (f"in{i}.pin" if fmt == "pin" else f"in{i}.parquet")
            dsets.append(make_dataset(df, p, features=["f_key", "f2"], spectrum=spec, row_group_size=cfg.get("rg")))
        w = workers or cfg.get("workers", 1)
        psms, models, scores, descs = mokapot.brew(dsets, model=make_model(case.get("est", "linear"), first_only=True), test_fdr=0.5,
                                                   folds=3, max_workers=w, rng=1,
                                                   subset_max_train=case.get("cap"))
        out = work / "out"
        out.mkdir(exist_ok=True)
        assign_confidence(psms, max_workers=w, scores=scores, descs=descs, dest_dir=out,
                          prefixes=[f"p{i}" for i in range(len(names))] if len(names) > 1 else [None],
                          decoys=True, deduplication=case.get("dedup", True))
        files = {n: read_result(out / n) for n in listing(out)}
        # rows (by key) in the order in which every fit call received them: an order-sensitive learner (the default
        # SVM with its shuffled CV) would turn a changed training-row order into changed scores
        fit_rows = tuple(tuple(e[2] for e in m.estimator.log_ if e[0] == "fit") for m in models)
        return {"scores": [np.asarray(s, dtype=float).ravel() for s in scores], "files": files,
                "trained": all(m.is_trained for m in models), "fit_rows": fit_rows}
    finally:
        set_chunks(**DEFAULT_CHUNKS)
        shutil.rmtree(work / "out", ignore_errors=True)


def compare(ref, got, pep_tol=1e-6):
    """List of (signature, message)."""
    errs = []
    for i, (a, b) in enumerate(zip(ref["scores"], got["scores"])):
        if a.shape != b.shape:
            errs.append(("scores-length", f"file {i}: {b.shape} scores instead of {a.shape}"))
        elif not np.allclose(a, b, rtol=1e-9, atol=1e-9):
            j = int(np.argmax(np.abs(a - b)))
            errs.append(("scores-differ", f"file {i}: score of row {j} is {b[j]!r}, reference {a[j]!r}"))
    if ref.get("fit_rows") != got.get("fit_rows"):
        errs.append(("training-row-order-differs", "the estimator received its training rows in another order than in the reference run"))
    if sorted(ref["files"]) != sorted(got["files"]):
        errs.append(("file-set-differs", f"files {sorted(got['files'])} vs reference {sorted(ref['files'])}"))
        return errs
    for name, rdf in ref["files"].items():
        gdf = got["files"][name]
        if "score" in rdf.columns and "PSMId" in rdf.columns and len(rdf) == len(gdf) and "score" in gdf.columns:
            # rows with exactly equal scores (e.g. the 0 anchor of every fold) may come in any order
            for df_ in (rdf, gdf):
                sc_ = list(df_["score"])
                if any(a < b for a, b in zip(sc_, sc_[1:])):
                    errs.append(("result-not-sorted", f"{name}: rows not in non-increasing score order"))
            rdf = rdf.sort_values(["score", "PSMId"], ascending=[False, True], kind="stable").reset_index(drop=True)
            gdf = gdf.sort_values(["score", "PSMId"], ascending=[False, True], kind="stable").reset_index(drop=True)
        same_scores = "score" in rdf.columns and len(rdf) == len(gdf) and np.array_equal(rdf["score"].values, gdf["score"].values)
        if list(rdf.columns) != list(gdf.columns):
            errs.append(("result-columns-differ", f"{name}: {list(gdf.columns)}"))
            continue
        if len(rdf) != len(gdf):
            errs.append(("result-row-count-differs", f"{name}: {len(gdf)} rows instead of {len(rdf)}"))
            continue
        for col in rdf.columns:
            a, b = rdf[col].values, gdf[col].values
            if rdf[col].dtype.kind in "fc":
                tol = 1e-9 if col == "score" else 1e-6
                if col == "posterior_error_prob":
                    tol = pep_tol if same_scores else max(pep_tol, 5e-2)
                if not np.allclose(a.astype(float), b.astype(float), rtol=tol, atol=tol, equal_nan=True):
                    j = int(np.argmax(np.abs(a.astype(float) - b.astype(float))))
                    errs.append((f"result-{col}-differs", f"{name} row {j}: {col} {b[j]!r} vs reference {a[j]!r}"))
            elif list(a) != list(b):
                j = next(k for k, (x, y) in enumerate(zip(a, b)) if x != y)
                errs.append((f"result-{col}-differs", f"{name} row {j}: {col} {b[j]!r} vs reference {a[j]!r}"))
    return errs


_REF = {}


def reference(case, work):
    key = (repr(case["data"]), case.get("dedup", True), case.get("est", "linear"), case.get("cap"))
    if key not in _REF:
        r = pipeline({"data": case["data"], "dedup": case.get("dedup", True), "est": case.get("est", "linear"), "config": {},
                      "cap": case.get("cap")}, work)
        # harness sanity: a degenerate reference (untrained model, NaN scores from a fold without decoys) would make
        # the differential oracle vacuous
        if not r["trained"] or any(not np.all(np.isfinite(s)) for s in r["scores"]):
            raise RuntimeError(f"degenerate reference execution for {key}")
        _REF[key] = r
    return _REF[key]


def check_case(case, acc):
    work = worker_scratch().sub()
    try:
        ref = reference(case, work)
        try:
            got = pipeline(case, work)
        except Exception as e:
            cls, desc = classify_exception(e)
            acc.violation(Violation("raises:" + exc_signature(e),
                                    f"the reference configuration succeeds but this one raised: {desc}", case))
            return "raised"
        # Parquet keeps scores bit-exact while the text path parses them back with pandas' fast float parser
        # (1 ulp off); qvality amplifies that to ~1e-3 in the PEP (measured), so across formats PEPs get 5e-2
        pep_tol = 5e-2 if case["config"].get("fmt", "pin") != "pin" else 1e-6
        for sig, msg in compare(ref, got, pep_tol)[:3]:
            acc.violation(Violation(sig, msg, case))
        return "result" if ref["trained"] else "result_untrained"
    finally:
        shutil.rmtree(work, ignore_errors=True)


# ------------------------------------------------------------------------------------------------
# read_pin: column / row scan chunks, workers, format
# ------------------------------------------------------------------------------------------------
def pin_table(nfeat=5, nrows=9, nan_col=3):
    df, spec = gen_psms([1, 2, 1, 1, 2, 1, 1], offset=1, key_cols=3)
    df = df.iloc[:nrows].copy()
    for k in range(3, nfeat + 1):
        df.insert(len(df.columns) - 2, f"f{k}", [float((i * (k + 2)) % 7) for i in range(len(df))])
    if nan_col:
        df.loc[df.index[len(df) // 2], f"f{nan_col}"] = np.nan
    return df


def read_pin_outcome(case, work):
    import mokapot

    cfg = case["config"]
    chunks = dict(DEFAULT_CHUNKS)
    chunks.update({k: v for k, v in cfg.items() if k in DEFAULT_CHUNKS})
    set_chunks(**chunks)
    try:
        df = pin_table()
        p = work / ("t.pin" if cfg.get("fmt", "pin") == "pin" else "t.parquet")
        write_table(df, p, row_group_size=cfg.get("rg"))
        ds = mokapot.read_pin(p, max_workers=cfg.get("workers", 1))[0]
        sd = ds.spectra_dataframe
        return {
            "features": list(ds.feature_columns), "spectrum": list(ds.spectrum_columns),
            "metadata": list(ds.metadata_columns), "columns": list(ds.columns),
            "spectra_cols": list(sd.columns), "spectra_rows": [tuple(map(repr, r)) for r in sd.itertuples(index=False)],
        }
    finally:
        set_chunks(**DEFAULT_CHUNKS)


def check_pin_case(case, acc):
    work = worker_scratch().sub()
    try:
        try:
            ref = _REF.get("pin")
            if ref is None:
                ref = _REF["pin"] = read_pin_outcome({"config": {}}, work)
        except Exception as e:
            acc.violation(Violation("read_pin-reference-raises:" + exc_signature(e),
                                    f"read_pin fails in the reference configuration: {classify_exception(e)[1]}", case))
            return "raised"
        try:
            got = read_pin_outcome(case, work)
        except Exception as e:
            acc.violation(Violation("read_pin-raises:" + exc_signature(e),
                                    f"read_pin succeeds in the reference configuration but raised here: {classify_exception(e)[1]}", case))
            return "raised"
        for k in ref:
            if ref[k] != got[k]:
                acc.violation(Violation(f"read_pin-{k}-differ", f"{k}: {got[k]} vs reference {ref[k]}", case))
                break
        return "result"
    finally:
        shutil.rmtree(work, ignore_errors=True)


def worker(item):
    acc = Acc()
    for case in item:
        if case.get("pin"):
            cls = check_pin_case(case, acc)
            small = any(k in PIN_CONSTS for k in case["config"])
        else:
            cls = check_case(case, acc)
            n = sum(n_rows(d) for d in (case["data"] if isinstance(case["data"], list) else [case["data"]]))
            small = any(k in BREW_CONSTS and v < n for k, v in case["config"].items()) or "rg" in case["config"]
        acc.case(key=repr(sorted(case.items(), key=str)), nontrivial=small, outcome=cls, cls=cls,
                 sample=case if acc.evaluations % 37 == 1 else None)
    return acc


# ------------------------------------------------------------------------------------------------
# E2
# ------------------------------------------------------------------------------------------------
def e2_body(kind, work):
    if kind in ("pipeline", "pipeline2"):
        case = {"data": "A" if kind == "pipeline" else ["A", "B"],
                "config": {"CONFIDENCE_CHUNK_SIZE": 9, "CHUNK_SIZE_READ_ALL_DATA": 10 if kind == "pipeline" else 14,
                           "CHUNK_SIZE_ROWS_PREDICTION": 13 if kind == "pipeline" else 30, "workers": 3}}

        def body(case=case, w=3):
            r = pipeline(case, work, workers=w)
            def canon(df):
                # rows with exactly equal scores (the 0 / -1 anchors of different folds) may come in any order:
                # the chunk files are found with glob, i.e. in directory (= creation) order
                sc = list(df["score"])
                assert all(a >= b for a, b in zip(sc, sc[1:])), "result file not sorted"
                df = df.sort_values(["score", "PSMId"], ascending=[False, True], kind="stable")
                return tuple(map(tuple, df.round(9).astype(str).values.tolist()))

            return (tuple(tuple(float(f"{v:.11g}") for v in s) for s in r["scores"]),
                    tuple((n, canon(df)) for n, df in sorted(r["files"].items())), r["fit_rows"])

        seq = lambda: body(w=1)  # noqa: E731
        return body, seq
    elif kind == "confidence_ties":
        # Cross-chunk score ties inside a spectrum: which tied candidate wins is decided by the chunk order, which is
        # fixed for a fixed chunk size - so the result must still not depend on the thread schedule.
        from mokapot.confidence import assign_confidence

        df, spec = dataset("B")
        sc = df["f_key"].values.astype(float).copy()
        first = {}
        for i, scan in enumerate(df["ScanNr"]):
            if scan in first:
                sc[i] = sc[first[scan]]  # the far-away second PSM of a spectrum ties with the first
            else:
                first[scan] = i

        def body(w=3):
            set_chunks(**dict(DEFAULT_CHUNKS, CONFIDENCE_CHUNK_SIZE=9))
            try:
                ds = make_dataset(df, work / "t.pin", features=["f_key", "f2"], spectrum=spec)
                out = work / "tout"
                shutil.rmtree(out, ignore_errors=True)
                out.mkdir()
                assign_confidence([ds], max_workers=w, scores=[sc], descs=[True], dest_dir=out, prefixes=[None], decoys=True)
                return tuple((n, (out / n).read_text()) for n in listing(out))
            finally:
                set_chunks(**DEFAULT_CHUNKS)

        return body, (lambda: body(w=1))
    else:
        case = {"pin": True, "config": {"CHUNK_SIZE_COLUMNS_FOR_DROP_COLUMNS": 3, "CHUNK_SIZE_ROWS_FOR_DROP_COLUMNS": 4, "workers": 3}}

        def body(case=case, w=3):
            c = dict(case, config=dict(case["config"], workers=w))
            r = read_pin_outcome(c, work)
            return tuple((k, repr(v)) for k, v in sorted(r.items()))

        seq = lambda: body(w=1)  # noqa: E731
        return body, seq


def e2_worker(item):
    kind, focus, bound, gran, root, ref_hash = item
    acc = Acc()
    work = worker_scratch().sub()
    try:
        body, _ = e2_body(kind, work)

        def on_exec(exe, out, exc):
            acc.count("e2_executions")
            acc.count("e2_transitions", len(exe.choices))
            acc.count("e2_preemptions", exe.preemptions)
            if exe.max_inflight >= 2:
                acc.count("e2_executions_with_2plus_inflight")
            h = hash(out) if exc is None else "EXC:" + exc_signature(exc)
            acc.case(key=(kind, focus, tuple(exe.choices)), nontrivial=exe.max_inflight >= 2, outcome=h, cls="schedule")
            if h != ref_hash:
                # before trusting a failure: the same schedule must fail identically when executed again
                exe2, out2, exc2 = sched.execute(body, list(exe.choices), focus, gran)
                h2 = hash(out2) if exc2 is None else "EXC:" + exc_signature(exc2)
                if h2 != h:
                    acc.violation(Violation("harness-nondeterministic-schedule", f"schedule {exe.choices} of invocation {focus} gave two "
                                            "different observations in two executions: uncontrolled nondeterminism in the harness",
                                            {"focus": focus, "schedule": list(exe.choices)}))
                    return
                acc.violation(Violation(
                    "schedule-changes-result" if exc is None else "schedule-crash:" + exc_signature(exc),
                    f"{kind}: pool invocation {focus}, schedule {exe.choices} ({exe.preemptions} preemption(s)) differs "
                    f"from the sequential run" + (f": {exc}" if exc else ""),
                    {"e2": kind, "focus": focus, "schedule": list(exe.choices), "granularity": gran}))

        # a budget of executions per work item; what is left of the subtree goes back to the parent's queue
        n, more = sched.explore(body, focus, bound, on_exec, granularity=gran, root_prefix=root, cap=E2_BUDGET)
        if more:
            acc.payload.extend((kind, focus, bound, gran, list(pfx), ref_hash) for pfx in sched.explore.remaining)
    finally:
        set_chunks(**DEFAULT_CHUNKS)
        shutil.rmtree(work, ignore_errors=True)
    return acc


def e2_plan(ctx, kind, bounds):
    items = []
    work = worker_scratch().sub()
    info = {}
    try:
        body, seq = e2_body(kind, work)
        try:
            ref = hash(seq())
        except Exception as e:
            ctx.acc.violation(Violation("e2-reference-raises:" + exc_signature(e), f"{kind}: sequential run raised {e}", {"e2": kind}))
            return [], {"error": str(e)}
        ninv = sched.count_invocations(body)
        info = {"kind": kind, "invocations": ninv, "explored": {}}
        for focus in range(ninv):
            bg = bounds(kind, focus, ninv)
            if bg is None:
                continue
            bound, gran = bg
            exe, out, exc = sched.execute(body, [], focus, gran)
            if exe.focus_tasks < 2:
                continue
            ctx.acc.count("e2_executions")
            ctx.acc.count("e2_transitions", len(exe.choices))
            h = hash(out) if exc is None else "EXC"
            ctx.acc.case(key=(kind, focus, ()), nontrivial=True, outcome=h, cls="schedule")
            if h != ref:
                ctx.acc.violation(Violation("schedule-changes-result", f"{kind}: default schedule of invocation {focus} differs",
                                            {"e2": kind, "focus": focus, "schedule": [], "granularity": gran}))
            info["explored"][focus] = {"bound": bound, "granularity": gran, "tasks": exe.focus_tasks, "points": len(exe.choices)}
            for child in sched.children(exe, bound):
                items.append((kind, focus, bound, gran, child, ref))
        return items, info
    finally:
        set_chunks(**DEFAULT_CHUNKS)
        shutil.rmtree(work, ignore_errors=True)


CAPS = {}  # per dataset: a binding training cap under which the reference execution still trains every fold (see run)


def _find_caps():
    for data in ("A", "B"):
        n = n_rows(data)
        work = worker_scratch().sub()
        try:
            for cap in range(n // 3, n):
                try:
                    r = pipeline({"data": data, "dedup": True, "config": {}, "cap": cap}, work)
                except (RuntimeError, ValueError):
                    continue
                if r["trained"] and all(np.all(np.isfinite(s)) for s in r["scores"]):
                    CAPS[data] = cap
                    break
        finally:
            shutil.rmtree(work, ignore_errors=True)


def make_cases(ctx):
    _find_caps()
    cases = []
    maxdev = 2 if ctx.quick else 3
    for data in ("A", "B", "C"):
        n = n_rows(data)
        small = [1, 2, 3, 5, n - 1, n, n + 1]
        for dedup in (True, False):
            base = {"data": data, "dedup": dedup}
            # singles: every value
            for c in BREW_CONSTS:
                for v in range(1, n + 2):
                    cases.append(dict(base, config={c: v}))
            for rg in range(1, n + 2):
                cases.append(dict(base, config={"fmt": "parquet", "rg": rg}))
            for w in (2, 3, 4, 8, 16):
                cases.append(dict(base, config={"workers": w}))
            # pairs / triples over the reduced value set
            dims = [[(c, v) for v in small] for c in BREW_CONSTS] + [[("rg", 1), ("rg", 3), ("rg", n)], [("workers", 3)]]
            for k in range(2, maxdev + 1):
                if k == 3 and (data != "A" or not dedup):
                    continue
                if ctx.quick and (data, dedup) not in (("A", True), ("B", False)):
                    continue
                for combo_dims in itertools.combinations(range(len(dims)), k):
                    for combo in itertools.product(*[dims[i] for i in combo_dims]):
                        cfg = dict(combo)
                        if "rg" in cfg:
                            cfg["fmt"] = "parquet"
                        cases.append(dict(base, config=cfg))
    # spectra told apart by the last of three key columns only
    n = n_rows("D")
    for c in ("CONFIDENCE_CHUNK_SIZE", "MERGE_SORT_CHUNK_SIZE"):
        for v in range(1, n + 2):
            cases.append({"data": "D", "dedup": True, "config": {c: v}})
    for v in (1, 3, n):
        cases.append({"data": "D", "dedup": True, "config": {"CHUNK_SIZE_ROWS_PREDICTION": v}})
        cases.append({"data": "D", "dedup": True, "config": {"fmt": "parquet", "rg": v}})
    # estimator without a decision function (scores are not calibrated; another code path in prediction)
    for data in ("A", "B"):
        n = n_rows(data)
        for v in range(1, n + 2):
            cases.append({"data": data, "dedup": True, "est": "proba", "config": {"CHUNK_SIZE_ROWS_PREDICTION": v}})
        for c in ("CONFIDENCE_CHUNK_SIZE", "CHUNK_SIZE_READ_ALL_DATA"):
            for v in (1, 3, n):
                cases.append({"data": data, "dedup": True, "est": "proba", "config": {c: v}})
    # training on a capped random subset (subset_max_train binding): the subset is drawn from the seeded generator and
    # must not depend on how the file is streamed
    for data in ("A", "B"):
        n = n_rows(data)
        cap = CAPS.get(data)
        if cap is None:
            continue
        for v in range(1, n + 2):
            cases.append({"data": data, "dedup": True, "cap": cap, "config": {"CHUNK_SIZE_READ_ALL_DATA": v}})
        for c in BREW_CONSTS:
            for v in (1, 3, n):
                cases.append({"data": data, "dedup": True, "cap": cap, "config": {c: v}})
        cases.append({"data": data, "dedup": True, "cap": cap, "config": {"workers": 3, "CHUNK_SIZE_READ_ALL_DATA": 3}})
        cases.append({"data": data, "dedup": True, "cap": cap, "config": {"fmt": "parquet", "rg": 3, "CHUNK_SIZE_READ_ALL_DATA": 5}})
    # joint run of two files
    nj = n_rows("A") + n_rows("B")
    for c in BREW_CONSTS:
        for v in (1, 2, 3, 7, n_rows("A"), n_rows("B") + 1):
            cases.append({"data": ["A", "B"], "dedup": True, "config": {c: v}})
    cases.append({"data": ["A", "B"], "dedup": True, "config": {"workers": 4}})
    # read_pin
    ncol = len(pin_table().columns)
    for cc in range(2, ncol + 2):
        for rc in (1, 2, 3, 4, 9, 10):
            for w in (1, 3):
                for fmt in ("pin", "parquet"):
                    cfg = {"CHUNK_SIZE_COLUMNS_FOR_DROP_COLUMNS": cc, "CHUNK_SIZE_ROWS_FOR_DROP_COLUMNS": rc, "workers": w, "fmt": fmt}
                    if fmt == "parquet":
                        cfg["rg"] = 4
                    cases.append({"pin": True, "config": cfg})
    return cases, maxdev


def run(ctx):
    cases, maxdev = make_cases(ctx)
    cases = ctx.rotate(cases)
    k = 30
    items = [cases[i:i + k] for i in range(0, len(cases), k)]
    save, ctx.seed = ctx.seed, 0
    ctx.pmap(worker, items)

    def bounds(kind, focus, ninv):
        if kind == "pin":
            return (1, "entry") if ctx.quick else (2, "task")
        if kind == "confidence_ties":
            return (1, "task") if ctx.quick else (2, "task")
        # pipeline: invocations 0,1 parse; 2 fit; 3.. predict; last = confidence chunk writer.
        # quick: brew's pools are explored by C02's quick tier (same engine, same tasks); here only the chunk writer
        if kind == "pipeline2":
            # two jointly modelled files: invocations 0,1 read the files, 2 = per-file concat/reindex pool (two tasks)
            if focus == 2:
                return (1, "entry") if ctx.quick else (2, "entry")
            return None if ctx.quick else ((1, "task") if focus < 2 else None)
        if ctx.quick:
            return (1, "task") if focus == ninv - 1 else None
        # (bound 2 for the chunk-writer pool is completed on the cheaper 'confidence_ties' body, which runs
        # assign_confidence alone; here every execution runs brew as well)
        if focus == 2:
            return (1, "task")
        return (1, "task") if focus == ninv - 1 else (1, "entry")

    infos, e2_items = [], []
    for kind in ("pin", "confidence_ties", "pipeline2", "pipeline"):
        it, info = e2_plan(ctx, kind, bounds)
        e2_items += it
        infos.append(info)
    while e2_items:  # work items hand back the unexplored rest of their subtree: re-queue until nothing is left
        before = len(ctx.acc.payload)
        ctx.pmap(e2_worker, e2_items)
        e2_items = ctx.acc.payload[before:]
        del ctx.acc.payload[before:]
    ctx.seed = save
    ex = ctx.acc.extra
    ctx.info["states"] = ex.get("e2_executions", 0)
    ctx.info["transitions"] = ex.get("e2_transitions", 0)
    ctx.info["traces_validated_against_impl"] = ex.get("e2_executions", 0)
    ctx.info["e2"] = infos
    ctx.info["bound"] = {"max_deviations": maxdev, "cases": len(cases)}
    ctx.exhaustive = True


def replay(case):
    acc = Acc()
    if "e2" in case:
        work = worker_scratch().sub()
        try:
            if "schedule" not in case:
                return []
            body, seq = e2_body(case["e2"], work)
            ref = repr(seq())
            outs = []
            for _ in range(2):
                exe, out, exc = sched.execute(body, case["schedule"], case["focus"], case.get("granularity", "entry"))
                outs.append(repr(out) if exc is None else "EXC:" + exc_signature(exc))
            if outs[0] != outs[1]:
                acc.violation(Violation("harness-nondeterministic-replay", "same schedule, different observations", case))
            elif outs[0] != ref:
                acc.violation(Violation("schedule-changes-result", "replayed schedule differs from sequential", case))
        finally:
            set_chunks(**DEFAULT_CHUNKS)
            shutil.rmtree(work, ignore_errors=True)
        return acc.violations
    if case.get("pin"):
        check_pin_case(case, acc)
    else:
        check_case(case, acc)
    return acc.violations
