"""C01 - TDC q-values equal the defining formula (bounded exhaustive enumeration, E1).

Alphabet: score vectors as weak orderings (every surjection positions -> ranks: every tie
pattern and every input order), all 2^n label vectors, both directions.
Second axis (small n): score dtypes, label dtypes, strictly monotone rescalings,
training labels at every distinguishing threshold.
Oracle: exact rational reference (mc/ref/tdc.py).
"""

from __future__ import annotations

import itertools
import math

import numpy as np

from mc.core import Acc, Violation
from mc.ref.tdc import ref_qvalues, ref_labels

PROPERTY = "C01"
SIZE_MODULES = ['mokapot.qvalues']  # see mc.runner._sized_passes
LEVEL = "exploration"
RULE = (
    "cases = (weak ordering of n positions as rank tuple, label vector, direction), enumerated "
    "completely for each n (simplest first); a case is non-trivial iff it has a tie group or a "
    "decoy ranked strictly better than some target; distinct by (ranks, labels, direction, axis)"
)
ASSUMPTIONS = [
    "scores are finite; the implementation may store the FDR in float32, so agreement is "
    "|q - q_ref| <= 2^-22 (an exact float64 implementation also passes)",
    "label thresholds are placed at midpoints between distinct reference q-values or on "
    "exactly representable values, never on float32-ambiguous values",
    "integer score dtypes are exercised with small magnitudes and at both ends of the dtype's range (64-bit: +-(2^53-1), "
    "the range in which float64 ranking is exact)",
]

TOL = 2.0**-22
BASE = np.array([-2.5, -1.0, 0.0, 0.75, 1.5, 3.25, 7.0, 11.5, 12.0, 40.0])
RESCALE = {
    "2x+1": lambda x: 2 * x + 1,
    "x^3-7": lambda x: x**3 - 7,
    "1e6x": lambda x: 1e6 * x,
    "1e-6x": lambda x: 1e-6 * x,
    "x-1000": lambda x: x - 1000.0,
    "atan": np.arctan,
    "exp": np.exp,
    # strictly increasing in float64 but the images lie closer together than float32 can resolve
    "1e5+x/1000": lambda x: 1e5 + x / 1000.0,
    "1+1e-9x": lambda x: 1.0 + 1e-9 * x,
}
SCORE_DTYPES = ["float64", "float32", "int8", "int16", "int32", "int64", "uint8"]
LABEL_DTYPES = ["bool", "int", "float"]


def weak_orderings_with_prefix(n, prefix):
    """All surjections {0..n-1} -> {0..k-1} (some k) whose first len(prefix) values are prefix."""
    p = len(prefix)
    for rest in itertools.product(range(n), repeat=n - p):
        t = prefix + rest
        m = max(t)
        if len(set(t)) == m + 1:
            yield t


def _labels_as(lab, kind):
    if kind == "bool":
        return np.array(lab, dtype=bool)
    if kind == "int":
        return np.array(lab, dtype=int)
    return np.array(lab, dtype=float)


def _thresholds(qref):
    vals = sorted(set(qref), key=lambda ab: ab[0] / ab[1])
    thr = []
    lo = vals[0]
    thr.append((lo[0], lo[1] * 2))  # below the minimum
    for (a, b), (c, d) in zip(vals, vals[1:]):
        thr.append((a * d + c * b, 2 * b * d))
    thr += [(1, 4), (1, 2), (1, 1)]
    return thr


def check_one(tdc, ranks, lab, desc, acc, axis="core", score_dtype="float64", label_dtype="bool",
              rescale=None, entry="tdc"):
    """Run the implementation on one case and compare with the reference. Returns q (floats) or None."""
    case = {"ranks": list(ranks), "labels": [int(x) for x in lab], "desc": desc, "axis": axis,
            "score_dtype": score_dtype, "label_dtype": label_dtype, "rescale": rescale, "entry": entry}
    if axis == "dtype-extreme":
        # the ends of the dtype's range (minimum, around zero, maximum): rank k -> k-th of these values
        info = np.iinfo(score_dtype)
        if info.bits == 64:  # integers are ranked as float64: exact up to 2**53
            info = type("I", (), {"min": -(2**53 - 1), "max": 2**53 - 1})
        ladder = sorted({info.min, info.min + 1, -1 if info.min < 0 else 1, 0, 2, info.max - 1, info.max} - ({-1} if info.min == 0 else set()))
        s = np.array([ladder[r] for r in ranks], dtype=score_dtype)
    elif score_dtype.startswith("uint"):
        s = np.array(ranks, dtype=score_dtype)
    elif score_dtype.startswith("int"):
        s = (np.array(ranks) - 2).astype(score_dtype)
    else:
        s = BASE[list(ranks)].astype(score_dtype)
    if rescale:
        s = RESCALE[rescale](s.astype(float))
    t = _labels_as(lab, label_dtype)
    qref = ref_qvalues(ranks, lab, desc)
    try:
        if entry == "tdc":
            q = tdc(s, t, desc=desc)
        else:
            from mokapot.qvalues import qvalues_from_scores

            q = qvalues_from_scores(s, t, "tdc")
    except Exception as e:  # every finite vector with bool/0-1 labels is in the domain
        acc.violation(Violation(f"tdc-raises:{type(e).__name__}", f"tdc raised {type(e).__name__}: {e}", case))
        return None
    q = np.asarray(q, dtype=float)
    if q.shape != (len(ranks),):
        acc.violation(Violation("tdc-shape", f"returned shape {q.shape}", case))
        return None
    want = np.array([a / b for a, b in qref])
    if not np.all(np.isfinite(q)) or np.max(np.abs(q - want)) > TOL:
        acc.violation(Violation("tdc-formula", "q-values differ from the defining formula", case,
                                expected=want, observed=q))
        return q
    if np.any(q <= 0) or np.any(q > 1):
        acc.violation(Violation("tdc-range", "q-value outside (0,1]", case, observed=q))
    # exact equality on ties
    seen = {}
    for r, v in zip(ranks, q):
        if seen.setdefault(r, v) != v:
            acc.violation(Violation("tdc-ties", "tied scores received different q-values", case, observed=q))
            break
    return q


def worker(item):
    import mokapot.qvalues as mq
    from mokapot.dataset import _update_labels, LinearPsmDataset
    import pandas as pd

    n, prefix, opts = item
    acc = Acc()
    labs = list(itertools.product((0, 1), repeat=n))
    lin_cache = {}
    for ranks in weak_orderings_with_prefix(n, prefix):
        has_tie = len(set(ranks)) < n
        for lab in labs:
            for desc in (True, False):
                key = hash((ranks, lab, desc))
                # decoy strictly better than some target?
                if has_tie:
                    nontriv = True
                else:
                    dec = [r for r, l in zip(ranks, lab) if not l]
                    tar = [r for r, l in zip(ranks, lab) if l]
                    nontriv = bool(dec and tar) and (
                        (max(dec) > min(tar)) if desc else (min(dec) < max(tar))
                    )
                q = check_one(mq.tdc, ranks, lab, desc, acc)
                qref = ref_qvalues(ranks, lab, desc)
                acc.case(key=key, nontrivial=nontriv, outcome=hash(tuple(qref)),
                         sample={"ranks": ranks, "labels": lab, "desc": desc,
                                 "q_ref": [f"{a}/{b}" for a, b in qref]} if acc.evaluations % 20011 == 7 else None)
                if q is None:
                    continue
                if desc and n <= opts["n_entry"]:
                    check_one(mq.tdc, ranks, lab, True, acc, axis="entry", entry="qvalues_from_scores")
                    acc.count("entry_qvalues_from_scores")
                if n <= opts["n_dtype"]:
                    for sd in SCORE_DTYPES:
                        for ld in LABEL_DTYPES:
                            if sd == "float64" and ld == "bool":
                                continue
                            check_one(mq.tdc, ranks, lab, desc, acc, axis="dtype", score_dtype=sd, label_dtype=ld)
                            acc.count("dtype_cases")
                    for sd in ("int8", "int16", "int32", "int64", "uint8"):
                        check_one(mq.tdc, ranks, lab, desc, acc, axis="dtype-extreme", score_dtype=sd)
                        acc.count("dtype_extreme_cases")
                    for rs in RESCALE:
                        q2 = check_one(mq.tdc, ranks, lab, desc, acc, axis="rescale", rescale=rs)
                        acc.count("rescale_cases")
                        if q2 is not None and not np.array_equal(q2, q):
                            acc.violation(Violation(
                                "tdc-rescale", f"q-values changed under strictly monotone rescaling {rs}",
                                {"ranks": list(ranks), "labels": list(lab), "desc": desc, "axis": "rescale",
                                 "rescale": rs, "score_dtype": "float64", "label_dtype": "bool", "entry": "tdc"},
                                expected=q, observed=q2))
                if n <= opts["n_labels"]:
                    s = BASE[list(ranks)]
                    t = np.array(lab, dtype=bool)
                    for (tn, td) in _thresholds(qref):
                        want = ref_labels(ranks, lab, tn, td, desc)
                        case = {"ranks": list(ranks), "labels": list(lab), "desc": desc, "axis": "labels",
                                "thr": [tn, td]}
                        try:
                            got = _update_labels(s, t, eval_fdr=tn / td, desc=desc)
                        except Exception as e:
                            acc.violation(Violation(f"labels-raises:{type(e).__name__}", str(e), case))
                            continue
                        acc.count("label_cases")
                        if list(np.asarray(got).astype(int)) != want:
                            acc.violation(Violation("labels-wrong", "_update_labels differs from the reference",
                                                    case, expected=want, observed=got))
                        if n <= opts["n_linear"]:
                            ds = lin_cache.get(lab)
                            if ds is None:
                                df = pd.DataFrame({"t": list(map(bool, lab)), "s": range(n), "p": ["x"] * n,
                                                   "f": np.arange(n, dtype=float)})
                                ds = LinearPsmDataset(df, target_column="t", spectrum_columns="s",
                                                      peptide_column="p", feature_columns=["f"],
                                                      copy_data=False, enforce_checks=False)
                                lin_cache[lab] = ds
                            try:
                                got2 = ds._update_labels(s, eval_fdr=tn / td, desc=desc)
                            except Exception as e:
                                acc.violation(Violation(f"linlabels-raises:{type(e).__name__}", str(e),
                                                        dict(case, axis="linlabels")))
                                continue
                            acc.count("linear_label_cases")
                            if list(np.asarray(got2).astype(int)) != want:
                                acc.violation(Violation("linlabels-wrong",
                                                        "LinearPsmDataset._update_labels differs from the reference",
                                                        dict(case, axis="linlabels"), expected=want, observed=got2))
    return acc


def boundary_worker(item):
    """Large designed vectors (one tie group of T targets and D decoys => q = (D+1)/T for every PSM) that put the
    q-value just above, exactly on, or just below the label threshold - margins far wider than float32 rounding but
    inside the 1e-5 relative band a sloppy closeness test would accept."""
    from mokapot.dataset import _update_labels

    acc = Acc()
    thr, T, D, expect_pos = item
    lab = np.r_[np.ones(T, dtype=bool), np.zeros(D, dtype=bool)]
    for desc in (True, False):
        got = np.asarray(_update_labels(np.zeros(T + D), lab, eval_fdr=thr, desc=desc))
        want_t = 1 if expect_pos else 0
        case = {"axis": "boundary", "thr": thr, "targets": T, "decoys": D, "desc": desc}
        ok = bool(np.all(got[:T] == want_t) and np.all(got[T:] == -1))
        acc.case(key=(thr, T, D, desc), nontrivial=True, outcome=(int(got[0]), int(got[-1])), sample=case if desc else None)
        acc.count("boundary_cases")
        if not ok:
            acc.violation(Violation("labels-boundary", f"q = (D+1)/T = {(D + 1) / T!r} with threshold {thr}: targets labelled "
                                    f"{sorted(set(got[:T].tolist()))}, expected {want_t}", case))
    return acc


def large_worker(item):
    """Counts beyond 2**24 (where a float32 running count stops growing): T targets on top, then D decoys, then M
    targets, scores all distinct.  The defining formula in closed form: q_i = min over the ranks j at or below i of
    (decoys above-or-at j + 1) / (targets above-or-at j), computed with int64 counts and float64 division."""
    import mokapot.qvalues as mq

    T, D, M, desc = item
    acc = Acc()
    n = T + D + M
    case = {"axis": "large", "targets_top": T, "decoys": D, "targets_below": M, "desc": desc}
    lab = np.ones(n, dtype=bool)
    lab[T:T + D] = False
    s = np.arange(n, 0, -1, dtype=np.float64) if desc else np.arange(n, dtype=np.float64)  # rank 0 is the best either way
    ct = np.cumsum(lab, dtype=np.int64)
    cd = np.arange(1, n + 1, dtype=np.int64) - ct
    want = np.minimum(1.0, np.minimum.accumulate(((cd + 1) / ct)[::-1])[::-1])
    del ct, cd
    try:
        q = np.asarray(mq.tdc(s, lab, desc=desc), dtype=float)
    except Exception as e:
        acc.violation(Violation(f"tdc-raises:{type(e).__name__}", f"tdc raised {e!r} on {n} PSMs", case))
        return acc
    err = float(np.max(np.abs(q - want))) if q.shape == want.shape else float("inf")
    acc.case(key=("large", T, D, M, desc), nontrivial=True, outcome=round(err, 9), sample=case)
    acc.count("large_count_cases")
    if not err <= 2.0 ** -22:
        i = int(np.argmax(np.abs(q - want))) if q.shape == want.shape else -1
        acc.violation(Violation("tdc-formula-large-counts", f"{n} PSMs ({T} targets, {D} decoys, {M} targets, best first): q-value of "
                                f"rank {i} is {q[i] if i >= 0 else None!r}, the formula gives {want[i] if i >= 0 else None!r}", case,
                                expected=float(want[i]) if i >= 0 else None, observed=float(q[i]) if i >= 0 else None))
    return acc


def boundary_items():
    out = []
    for thr in (0.01, 0.05, 0.1):
        # smallest T with a ratio (D+1)/T in (thr, thr*(1+1e-5)] resp. [thr*(1-1e-5), thr)
        for above in (True, False):
            T = 1000
            while True:
                k = int(thr * T) + (1 if above else 0)  # k = D+1
                r = k / T
                if k >= 1 and ((thr < r <= thr * (1 + 8e-6)) if above else (thr * (1 - 8e-6) <= r < thr)):
                    out.append((thr, T, k - 1, not above))
                    break
                T += 1
                if T > 400000:
                    break
    out += [(0.25, 8, 1, True), (0.5, 4, 1, True), (0.125, 16, 1, True)]  # exactly on an exactly representable threshold
    return out


def run(ctx):
    if ctx.quick:
        nmax, opts = 6, dict(n_entry=6, n_dtype=4, n_labels=5, n_linear=3)
    else:
        nmax, opts = 7, dict(n_entry=7, n_dtype=5, n_labels=6, n_linear=4)
    items = []
    for n in range(1, nmax + 1):
        p = 0 if n <= 4 else (2 if n <= 6 else 3)
        p = min(p, n)
        for prefix in itertools.product(range(n), repeat=p):
            items.append((n, prefix, opts))
    ctx.pmap(worker, items, chunksize=1)
    ctx.pmap(boundary_worker, boundary_items())
    large = [(2 ** 24 + 3, 2 ** 20, 2 ** 20, True)] if ctx.quick else \
        [(2 ** 24 + 3, 2 ** 20, 2 ** 20, d) for d in (True, False)] + [(2 ** 20, 2 ** 24 + 3, 2 ** 20, True)]
    ctx.pmap(large_worker, large, chunksize=1)
    ctx.exhaustive = True
    ctx.info["bound"] = {"n_max_complete": nmax, "large_count_vectors": [list(x) for x in large], **opts}
    ctx.info["explanation"] = (
        f"every weak ordering x every label vector x both directions for n<={nmax}; dtype/rescaling axis "
        f"for n<={opts['n_dtype']}; label thresholds for n<={opts['n_labels']}"
    )


def replay(case):
    import mokapot.qvalues as mq
    from mokapot.dataset import _update_labels

    acc = Acc()
    axis = case.get("axis", "core")
    if axis == "large":
        return large_worker((case["targets_top"], case["decoys"], case["targets_below"], case["desc"])).violations
    if axis == "boundary":
        a = boundary_worker((case["thr"], case["targets"], case["decoys"], (case["decoys"] + 1) / case["targets"] <= case["thr"]))
        return a.violations
    ranks, lab, desc = tuple(case["ranks"]), tuple(case["labels"]), case["desc"]
    if axis == "boundary":
        a = boundary_worker((case["thr"], case["targets"], case["decoys"], (case["decoys"] + 1) / case["targets"] <= case["thr"]))
        return a.violations
    if axis in ("labels", "linlabels"):
        tn, td = case["thr"]
        want = ref_labels(ranks, lab, tn, td, desc)
        got = _update_labels(BASE[list(ranks)], np.array(lab, dtype=bool), eval_fdr=tn / td, desc=desc)
        if list(np.asarray(got).astype(int)) != want:
            acc.violation(Violation("labels-wrong", "differs", case, want, got))
    else:
        q = check_one(mq.tdc, ranks, lab, desc, acc, axis=axis, score_dtype=case.get("score_dtype", "float64"),
                      label_dtype=case.get("label_dtype", "bool"), rescale=case.get("rescale"),
                      entry=case.get("entry", "tdc"))
        if axis == "rescale" and q is not None:
            q0 = check_one(mq.tdc, ranks, lab, desc, acc)
            if q0 is not None and not np.array_equal(q0, q):
                acc.violation(Violation("tdc-rescale", "changed under rescaling", case, q0, q))
    return acc.violations
