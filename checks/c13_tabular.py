"""C13 - chunked reading equals whole reading; writers lose and reorder nothing (E1).

Readers: tables of 0..N rows x (int, float, string, bool), every reader kind, every chunk size,
columns = None and every ordered subset of <= K columns.  Writers: every composition of the rows
into appends (with empty appends) x buffer size x buffer kind x protocol x format.
Oracle: list-of-tuples reference (mc/ref/table.py); input files are written by the harness.
"""

from __future__ import annotations

import re
from pathlib import Path

import numpy as np
import pandas as pd
import pyarrow as pa
import pyarrow.parquet as pq

from mc.core import Acc, Violation, scratch_root, worker_scratch
from mc.ref import table as T

PROPERTY = "C13"
SIZE_MODULES = ['mokapot.tabular_data', 'mokapot.streaming']  # see mc.runner._sized_passes
LEVEL = "exploration"
RULE = (
    "reader cases = (rows n, reader kind incl. Parquet row-group size, chunk size, requested columns), "
    "complete product, all requests of one (n, kind) issued in sequence against the SAME reader object; non-trivial iff the table is delivered in >= 2 chunks (chunk < n). "
    "writer cases = (format, buffer size, buffer kind, sequence of append sizes, protocol, payload form), "
    "complete product over every composition of n rows with <= Z empty appends; non-trivial iff n >= 2 and "
    "(>= 2 non-empty appends or a buffer is in use). Distinct by the full case tuple."
)
ASSUMPTIONS = [
    "one table per row count; values are clearly typed (non-monotone distinct ints, dyadic floats, strings "
    "that are not numeric/boolean/NA-like) so that chunk-wise CSV type inference is unambiguous",
    "ComputedTabularDataReader is driven with explicit column lists only (columns=None is rejected by the "
    "class itself), with a row-wise pure function of the requested other columns, and never with the computed "
    "column alone (the underlying reader would be asked for an empty column list)",
    "Records buffers receive single numpy records only: the type-checked append_data signature admits "
    "np.record but not record arrays; write() is driven with one DataFrame holding all rows",
    "an empty text file yielding one empty chunk and an empty Parquet file yielding none both count as the "
    "empty table; the chunk count ceil(n/chunk) is demanded for n > 0 only",
    "values are compared as python scalars of the same kind (bool/str/number), floats exactly; dtypes are "
    "not compared",
]

PA = {"i": pa.int64(), "f": pa.float64(), "s": pa.string(), "b": pa.bool_()}
PD = {"i": "int64", "f": "float64", "s": "str", "b": "bool"}
MAP = {"i": "I", "s": "S"}
LEFT, RIGHT = ["i", "s"], ["f", "b"]
SWAP = {"i": "s", "s": "i"}  # a map that swaps two names: applying it twice is not idempotent
OTHER_KINDS = [
    "tab", "csv", "frame", "mapped:tab", "mapped:parquet2", "mapped:frame", "swapped:frame", "swapped:tab",
    "joined:tab+parquet2", "joined:parquet3+frame", "joined:frame+csv",
    "computed:tab", "computed:parquet2", "computed:frame",
]


def frame(cols, rows):
    return pd.DataFrame({c: pd.Series([r[j] for r in rows], dtype=PD[c]) for j, c in enumerate(cols)})


def source(typ, stem, cols, rows, d, column_map=None):
    """typ: tab | csv | parquet<row group size> | frame -> a reader over a harness-written source."""
    from mokapot.tabular_data import DataFrameReader, TabularDataReader

    if typ == "frame":
        return DataFrameReader(frame(cols, rows))
    if typ.startswith("parquet"):
        p = d / f"{stem}.parquet"
        tbl = pa.table({c: pa.array([r[j] for r in rows], PA[c]) for j, c in enumerate(cols)})
        if typ.startswith("parquetg"):  # row groups of the given, unequal sizes (as several appends leave them)
            with pq.ParquetWriter(p, tbl.schema) as w:
                at = 0
                for g in map(int, typ[8:].split("_")):
                    w.write_table(tbl.slice(at, g), row_group_size=g)
                    at += g
        else:
            pq.write_table(tbl, p, row_group_size=int(typ[7:]))
    else:
        p = d / f"{stem}.{typ}"
        T.write_text(p, cols, rows)
    return TabularDataReader.from_path(p, column_map=column_map)


def build(kind, n, d):
    """-> (reader, column names, reference(want) -> rows)."""
    from mokapot.streaming import ComputedTabularDataReader, JoinedTabularDataReader

    rows = T.table(n)
    base, _, arg = kind.partition(":")
    if not arg:
        return source(kind, "t", T.COLS, rows, d), T.COLS, lambda want: T.project(rows, want)
    if base in ("mapped", "swapped"):
        from mokapot.tabular_data import ColumnMappedReader

        m = MAP if base == "mapped" else SWAP
        cols = [m.get(c, c) for c in T.COLS]
        src = source(arg, "t", T.COLS, rows, d, column_map=None if arg == "frame" else m)
        if arg == "frame":  # column-renamed reader over an in-memory frame
            src = ColumnMappedReader(src, m)
        return src, cols, lambda want: T.project(rows, want, cols)
    if base == "joined":
        a, b = arg.split("+")
        rd = JoinedTabularDataReader([
            source(a, "left", LEFT, T.project(rows, LEFT), d),
            source(b, "right", RIGHT, T.project(rows, RIGHT), d),
        ])
        return rd, LEFT + RIGHT, lambda want: T.project(rows, want)
    if base == "computed":
        def func(df):  # gets the requested other columns of one chunk / of the whole table
            return 2 * df["i"] + 0.5 if "i" in df.columns else pd.Series(-1.0, index=df.index)

        rd = ComputedTabularDataReader(source(arg, "t", T.COLS, rows, d), T.COMPUTED, np.dtype("float64"), func)
        return rd, T.COLS + [T.COMPUTED], lambda want: T.project_computed(rows, want)
    raise ValueError(kind)


def rows_verdict(got, want):
    if T.same_rows(got, want):
        return None
    return "rows-lost" if len(got) < len(want) else "rows-duplicated" if len(got) > len(want) else "rows-differ"


def reader_sig(kind, columns, what):
    base = re.sub(r"\d+$", "", kind.partition(":")[0]).replace("tab", "csv")
    if base == "joined" and columns is not None:
        # qualifier derived from the case alone: one of the two sources contributes no requested column
        if not set(LEFT) & set(columns) or not set(RIGHT) & set(columns):
            what += "-unrequested-source"
    return f"reader-{base}-{what}"


def check_reader(reader, cols, ref, case, acc):
    """One reader case: read() (chunk None) or chunked iteration.  Returns the observed outcome."""
    n, kind, chunk, columns = case["n"], case["kind"], case["chunk"], case["columns"]
    want_cols = list(columns) if columns is not None else list(cols)
    want = ref(want_cols)

    def bad(what, msg, expected=None, observed=None):
        acc.violation(Violation(reader_sig(kind, columns, what), f"{kind} n={n} chunk={chunk} columns={columns}: {msg}",
                                case, expected, observed))

    try:
        if chunk is None:
            chunks = [reader.read(columns=columns)]
        else:
            chunks = list(reader.get_chunked_data_iterator(chunk_size=chunk, columns=columns))
    except Exception as e:
        bad(f"raises:{type(e).__name__}", f"{type(e).__name__}: {str(e)[:200]}")
        return "raise"
    how = "read" if chunk is None else "chunk"
    for c in chunks:
        if list(c.columns) != want_cols:
            bad(f"{how}-columns", "columns are not the requested columns in the requested order",
                want_cols, list(c.columns))
            return "columns"
    got = [r for c in chunks for r in T.frame_rows(c)]
    v = rows_verdict(got, want)
    if v:
        bad(f"{how}-{v}", "rows differ from the table", want, got)
    index = [T.py(i) for c in chunks for i in c.index]
    if index != list(range(n)) and not v:
        bad("read-index" if chunk is None else "index-not-continuing",
            "row index is not 0..n-1 across the chunks", list(range(n)), index)
    # the number of chunks is not part of the statement (only their concatenation is): counted, never flagged
    if chunk is not None and n > 0 and len(chunks) != T.n_chunks(n, chunk):
        acc.count("chunk_count_not_ceil")
    return ([len(c) for c in chunks], got, index)


def reader_worker(item):
    n, kind, kmax, cmax = item
    acc = Acc()
    d = worker_scratch().sub()
    reader, cols, ref = build(kind, n, d)
    for columns in T.column_requests(cols, kmax, with_none=not kind.startswith("computed")):
        if columns == [T.COMPUTED]:  # leaves the underlying reader with an empty column list: not claimed
            continue
        for chunk in [None] + list(range(1, cmax + 1)):
            case = {"part": "reader", "n": n, "kind": kind, "chunk": chunk, "columns": columns}
            out = check_reader(reader, cols, ref, case, acc)
            if chunk is None:
                acc.count("read_calls")
                continue
            acc.case(key=("r", n, kind, chunk, tuple(columns or ())), nontrivial=chunk < n,
                     outcome=("r", repr(out)),
                     sample=case if (n, chunk, len(columns or ())) in ((5, 2, 2), (3, 1, 0), (4, 3, 1)) else None)
    worker_scratch().clean(d)
    return acc


# ---------------------------------------------------------------------------------------- writers
def payloads(rows, sizes, bt, single):
    out, pos = [], 0
    df = frame(T.COLS, rows)
    rec = df.to_records(index=False)
    for k in sizes:
        part = rows[pos:pos + k]
        if bt == "DataFrame":
            out.append(df.iloc[pos:pos + k])
        elif bt == "Dicts":
            dicts = [dict(zip(T.COLS, r)) for r in part]
            out.append(dicts[0] if k == 1 and single == "dict" else dicts)
        else:
            assert k == 1
            if single == "perrow":
                # one record per streamed chunk: its dtype is inferred from that row alone (the first value of the
                # float column is whole, so the first record carries an integer field, later ones a float field)
                vals = [int(v) if isinstance(v, float) and pos == 0 and float(v).is_integer() else v for v in part[0]]
                out.append(pd.DataFrame({c: [v] for c, v in zip(T.COLS, vals)}).to_records(index=False)[0])
            else:
                out.append(rec[pos])
        pos += k
    return out


def check_writer(case, acc, d):
    from mokapot.tabular_data import TableType, TabularDataWriter

    fmt, bs, bt, sizes, proto = case["fmt"], case["buffer_size"], case["buffer_type"], case["sizes"], case["protocol"]
    rows = T.table(sum(sizes))
    if case.get("single") == "perrow" and rows:
        rows = [(rows[0][0], 2.0) + tuple(rows[0][2:])] + list(rows[1:])  # whole-valued first float
    path = Path(d) / f"w.{fmt}"
    path.unlink(missing_ok=True)
    sig = f"writer-{'buffered' if bs > 1 else 'direct'}-{bt.lower()}-"
    kw = {"column_types": [PA[c] for c in T.COLS]} if fmt == "parquet" else {}
    try:
        w = TabularDataWriter.from_suffix(path, list(T.COLS), buffer_size=bs, buffer_type=TableType[bt], **kw)
        if proto == "write":
            w.write(frame(T.COLS, rows))
        else:
            data = payloads(rows, sizes, bt, case.get("single"))
            if case.get("permuted") is not None:
                # one append carries exactly the declared columns in reversed order: it is either refused (ValueError)
                # or its values must land under their own column names
                j = case["permuted"]
                if bt == "DataFrame":
                    data[j] = data[j][list(T.COLS)[::-1]]
                elif isinstance(data[j], dict):
                    data[j] = {k: data[j][k] for k in list(T.COLS)[::-1]}
                else:
                    data[j] = [{k: r[k] for k in list(T.COLS)[::-1]} for r in data[j]]
            if proto == "context":
                with w as ww:
                    for p in data:
                        ww.append_data(p)
            else:
                w.initialize()
                for p in data:
                    w.append_data(p)
                w.finalize()
        back = w.get_associated_reader().read()
        groups = None
        if fmt == "parquet":
            md = pq.ParquetFile(path).metadata
            groups = [md.row_group(g).num_rows for g in range(md.num_row_groups)]
    except Exception as e:
        if case.get("permuted") is not None and isinstance(e, (ValueError, TypeError, AssertionError, KeyError)):
            acc.count("permuted_append_refused")
            return "refused"
        acc.violation(Violation(sig + f"raises:{type(e).__name__}", f"{case}: {type(e).__name__}: {str(e)[:200]}", case))
        return "raise"
    if case.get("permuted") is not None:
        acc.count("permuted_append_accepted")
    got = T.frame_rows(back)
    if list(back.columns) != T.COLS:
        acc.violation(Violation(sig + "columns", f"{case}: columns read back differ", case, T.COLS, list(back.columns)))
    else:
        v = rows_verdict(got, rows)
        if v:
            acc.violation(Violation(sig + v, f"{case}: rows read back are not the appended rows in order", case, rows, got))
    return (got, groups)


def sequences(n, bt, zeros):
    return [(1,) * n] if bt == "Records" else T.append_sequences(n, zeros)


def writer_worker(item):
    fmt, bs, bt, n, zeros = item
    acc = Acc()
    d = worker_scratch().sub()
    cases = [dict(sizes=[n], protocol="write")]
    for sizes in sequences(n, bt, zeros):
        for single in (("dict", "list") if bt == "Dicts" and 1 in sizes else ((None, "perrow") if bt == "Records" else (None,))):
            for proto in ("explicit", "context"):
                cases.append(dict(sizes=list(sizes), protocol=proto, single=single))
    if bt in ("DataFrame", "Dicts"):
        for sizes in sequences(n, bt, zeros):
            nz = [i for i, k in enumerate(sizes) if k]
            for j in sorted({nz[0], nz[-1]}) if nz else ():
                cases.append(dict(sizes=list(sizes), protocol="explicit", single="list" if bt == "Dicts" else None, permuted=j))
    for c in cases:
        case = {"part": "writer", "fmt": fmt, "buffer_size": bs, "buffer_type": bt, **c}
        out = check_writer(case, acc, d)
        parts = sum(1 for k in c["sizes"] if k)
        acc.case(key=("w", fmt, bs, bt, tuple(c["sizes"]), c["protocol"], c.get("single"), c.get("permuted")),
                 nontrivial=n >= 2 and (parts >= 2 or bs > 1), outcome=("w", repr(out)),
                 sample=case if (n, len(c["sizes"])) in ((5, 3), (3, 4)) and bs == 2 else None)
    worker_scratch().clean(d)
    return acc


def _compositions(n):
    if n == 0:
        yield ()
    for first in range(1, n + 1):
        for rest in _compositions(n - first):
            yield (first,) + rest


def worker(item):
    return reader_worker(item[1:]) if item[0] == "r" else writer_worker(item[1:])


def run(ctx):
    nmax, kmax, zeros = (5, 2, 1) if ctx.quick else (8, 3, 2)
    cmax = nmax + 1
    kinds = OTHER_KINDS + [f"parquet{g}" for g in range(1, cmax + 1)]
    items = [("r", n, kind, kmax, cmax) for n in range(nmax + 1) for kind in kinds]
    # Parquet files whose row groups have unequal sizes: every composition of n rows into >= 2 groups
    gmax = min(nmax, 6)
    ragged = [(n, "parquetg" + "_".join(map(str, comp))) for n in range(2, gmax + 1) for comp in _compositions(n)
              if len(comp) >= 2]
    items += [("r", n, kind, min(kmax, 2), n + 1) for n, kind in ragged]
    buffers = [(0, "DataFrame")] + [(bs, bt) for bs in range(2, nmax + 1) for bt in ("DataFrame", "Dicts", "Records")]
    items += [("w", fmt, bs, bt, n, zeros) for fmt in ("tab", "parquet") for bs, bt in buffers for n in range(nmax + 1)]
    ctx.pmap(worker, items, chunksize=1)
    ctx.exhaustive = True
    ctx.info["bound"] = {"rows_max": nmax, "chunk_max": cmax, "row_group_max": cmax, "columns_max": kmax,
                         "reader_kinds": kinds, "ragged_row_group_files": len(ragged), "ragged_rows_max": gmax, "buffer_sizes": [0] + list(range(2, nmax + 1)),
                         "max_empty_appends": zeros}
    ctx.info["explanation"] = (
        f"readers: rows 0..{nmax} x {len(kinds)} kinds x chunk 1..{cmax} x (None + ordered subsets of <= {kmax} "
        f"columns); writers: text/Parquet x buffer 0,2..{nmax} x 3 buffer kinds x every composition of <= {nmax} "
        f"rows with <= {zeros} empty appends x write()/context/explicit"
    )


def check_case(case, acc, d):
    if case["part"] == "reader":
        # one reader object serves the whole request sequence of its (rows, kind) item - replay that history
        a = reader_worker((case["n"], case["kind"], 3, case["n"] + 1))
        for v in a.violations:
            acc.violation(v)
    else:
        check_writer(case, acc, d)


def replay(case):
    import tempfile

    acc = Acc()
    with tempfile.TemporaryDirectory(prefix="mokaverif_replay_", dir=scratch_root()) as d:
        check_case(case, acc, Path(d))
    return acc.violations
