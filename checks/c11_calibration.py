"""C11 - per-fold score calibration is order-preserving and anchors 0 and -1 (E1).

From the recording estimator: for every (file, fold) the raw values r the fold's model returned and the
scores s that brew returned for the same rows.  Reference q-values (C01 reference) on (r, genuine labels)
give t = lowest raw value of a target accepted at test_fdr and d = median raw value of the decoys.
If t > d: s must equal (r - t) / (t - d) for every row (strictly increasing affine, t -> 0, d -> -1).
If a fold accepts no target brew must stop with its explicit RuntimeError instead of returning scores.
"""

from __future__ import annotations

import itertools
import shutil

import numpy as np

from mc.core import Acc, Violation, worker_scratch, classify_exception, exc_signature
from mc.datasets import make_dataset, gen_psms, set_chunks, DEFAULT_CHUNKS, write_table
from mc.recorders import make_model, score_log
from mc.ref.tdc import ref_qvalues

PROPERTY = "C11"
SIZE_MODULES = ['mokapot.brew', 'mokapot.dataset']  # see mc.runner._sized_passes
LEVEL = "exploration"
RULE = (
    "case = (spectrum-multiplicity vector, scan offset, folds 2..6, test_fdr in {0.13,0.26,0.34,0.51}, estimator "
    "(linear on the key feature / linear on all features / decision_function+predict_proba), one or two files; plus the "
    "dyadic thresholds 0.125/0.25/0.5 where a q-value can equal the threshold exactly; every (file, fold) of a returned result "
    "is one checked calibration. Non-trivial iff the run returned model scores (not an explicit error, untrained "
    "model or best-feature fallback); plus the impossible-FDR family (test_fdr 1e-4) where brew must raise"
)
ASSUMPTIONS = [
    "evaluation FDRs are either no ratio of small integers or exactly representable dyadic fractions, so acceptance "
    "(q <= FDR) is unambiguous under float32 storage, also at the boundary",
    "folds with t <= d are outside the statement's quantifier: counted and skipped",
    "fold membership and raw model output are recovered from the recording estimator (public Model API)",
]

FDRS = (0.13, 0.26, 0.34, 0.51)
# exactly representable thresholds: a q-value (D+1)/T equal to one of them is exact in float32 as well, so
# "accepted at q <= FDR" is unambiguous *at* the boundary
DYADIC = (0.125, 0.25, 0.5)


def build(case, work):
    folds = case["folds"]
    nspec = 14 * folds
    sizes = [nspec] if case.get("files", 1) == 1 else [nspec, nspec // 2 + 5]
    frames, paths = [], []
    base = case["mults"]
    for fi, ns in enumerate(sizes):
        df, spec = gen_psms([base[i % len(base)] for i in range(ns)], offset=case["offset"], file_idx=fi, pattern=fi)
        p = work / f"in{fi}.pin"
        write_table(df, p)
        frames.append((df, spec))
        paths.append(p)
    return frames, paths


def check_case(case, acc):
    import mokapot

    set_chunks(**DEFAULT_CHUNKS)
    if case.get("pred_chunk"):
        # the table is predicted in several row chunks: a fold's scores arrive in pieces, the anchors are per FOLD
        set_chunks(CHUNK_SIZE_ROWS_PREDICTION=case["pred_chunk"])
    work = worker_scratch().sub()
    sigs = set()

    def add(sig, msg, **kw):
        if sig not in sigs:
            sigs.add(sig)
            acc.violation(Violation(sig, msg, case, **kw))

    try:
        frames, paths = build(case, work)
        if case.get("history"):
            # an earlier analysis, in this process, of ANOTHER export under the same paths (same rows, the label column in
            # reversed order): nothing mokapot remembers about those files may reach this analysis
            prev = []
            for (df, spec), p in zip(frames, paths):
                old = df.copy()
                old["Label"] = old["Label"].values[::-1].copy()
                write_table(old, p)
                prev.append(make_dataset(old, p, features=["f_key", "f2"], spectrum=spec, write=False))
            try:
                mokapot.brew(prev, model=make_model(case.get("est", "linear"), first_only=case["first_only"]), test_fdr=case["fdr"],
                             folds=case["folds"], max_workers=1, rng=case.get("seed", 1))
                acc.count("history_prior_analyses_completed")
            except (RuntimeError, ValueError):
                acc.count("history_prior_analyses_refused")
            for (df, spec), p in zip(frames, paths):
                write_table(df, p)
        dsets = [make_dataset(df, p, features=["f_key", "f2"], spectrum=spec, write=False)
                 for (df, spec), p in zip(frames, paths)]
        model = make_model(case.get("est", "linear"), first_only=case["first_only"], **({"train_fdr": case["train_fdr"]} if "train_fdr" in case else {}))
        try:
            psms, models, scores, descs = mokapot.brew(dsets, model=model, test_fdr=case["fdr"], folds=case["folds"],
                                                       max_workers=1, rng=case.get("seed", 1))
        except Exception as e:
            cls, desc = classify_exception(e)
            if cls == "crash":
                add("crash:" + exc_signature(e), desc)
            elif case.get("pred_chunk"):
                # the statement allows the error only when a fold accepts no target: the same table predicted in one piece
                # decides that (same folds, same model output)
                ref = check_case({k: v for k, v in case.items() if k != "pred_chunk"}, Acc())
                if ref == "result_full":
                    add("explicit-error-only-with-chunked-prediction", f"brew raised '{str(e)[:120]}' when the table is predicted "
                        f"in chunks of {case['pred_chunk']} rows, while every fold accepts targets when it is predicted in one piece")
            elif case.get("history"):
                # the error is allowed only when a fold accepts no target: the same analysis without the earlier one decides
                ref = check_case({k: v for k, v in case.items() if k != "history"}, Acc())
                if ref == "result_full":
                    add("explicit-error-only-after-earlier-analysis", f"brew raised '{str(e)[:120]}' after another export under the "
                        "same path(s) had been analysed in this process, while the same analysis alone calibrates every fold")
            elif case["fdr"] < 1e-3 and "calibrate" not in str(e) and "eval_fdr" not in str(e) and "train" not in str(e).lower():
                add("wrong-explicit-error", f"expected the calibration error, got: {e}")
            return cls
        if case["fdr"] < 1e-3:
            # nothing can be accepted at this FDR: returning model scores would be a violation
            if all(m.is_trained for m in models) and all(descs) and not _is_feature(scores, frames):
                add("scores-returned-without-accepted-target",
                    "brew returned calibrated model scores although no fold can accept a target at test_fdr=%g" % case["fdr"])
            return "result_fallback"
        if not all(m.is_trained for m in models):
            return "result_untrained"
        if _is_feature(scores, frames):
            return "result_fallback"
        label = {}
        pos = {}
        for fi, (df, _) in enumerate(frames):
            for i, (k, l) in enumerate(zip(df["f_key"], df["Label"])):
                label[float(k)] = (fi, int(l) == 1)
                pos[float(k)] = i
        for mi, m in enumerate(models):
            raw = {}
            for e in score_log(m, "predict"):
                raw.update(zip(e[2], e[3]))
            for fi in range(len(frames)):
                keys = [k for k in raw if label[k][0] == fi]
                if not keys:
                    continue
                r = [raw[k] for k in keys]
                lab = [label[k][1] for k in keys]
                s = [float(np.asarray(scores[fi]).ravel()[pos[k]]) for k in keys]
                q = ref_qvalues(r, lab, True)
                acc_t = [rv for rv, (a, b), l in zip(r, q, lab) if l and a / b <= case["fdr"]]
                dec = sorted(rv for rv, l in zip(r, lab) if not l)
                if not acc_t:
                    add("scores-returned-without-accepted-target",
                        f"fold {mi+1} of file {fi} accepts no target at test_fdr={case['fdr']} but brew returned scores")
                    continue
                if not dec:
                    acc.count("folds_without_decoy")
                    continue
                t = min(acc_t)
                n = len(dec)
                d = dec[n // 2] if n % 2 else (dec[n // 2 - 1] + dec[n // 2]) / 2.0
                if not t > d:
                    acc.count("folds_skipped_t_le_d")
                    continue
                acc.count("folds_checked")
                want = [(rv - t) / (t - d) for rv in r]
                err = max(abs(a - b) / max(1.0, abs(b)) for a, b in zip(s, want))
                if err > 1e-9:
                    # say which clause fails
                    order_ok = all((s[i] < s[j]) == (r[i] < r[j]) for i in range(len(r)) for j in range(len(r)))
                    s_at_t = s[r.index(t)]
                    if not order_ok:
                        sig = "calibration-not-order-preserving"
                    elif abs(s_at_t) > 1e-9:
                        sig = "calibration-zero-anchor"
                    else:
                        sig = "calibration-decoy-anchor"
                    add(sig, f"fold {mi+1} file {fi}: returned scores are not (r - t)/(t - d) with t={t}, d={d}; "
                        f"score at t is {s_at_t}; max relative error {err:.3g}", expected=want[:6], observed=s[:6])
        acc.outcomes.add(hash(tuple(float(f"{v:.9g}") for sc in scores for v in np.asarray(sc).ravel())))
        return "result_full"
    finally:
        shutil.rmtree(work, ignore_errors=True)


def _is_feature(scores, frames):
    def same(a, b):
        a = np.asarray(a, dtype=float).ravel()
        return a.shape == b.shape and np.allclose(a, b, rtol=1e-12, atol=0)

    return all(any(same(s, df[c].values.astype(float)) for c in ("f_key", "f2")) for s, (df, _) in zip(scores, frames))


def worker(item):
    acc = Acc()
    for case in item:
        cls = check_case(case, acc)
        acc.case(key=tuple(sorted((k, str(v)) for k, v in case.items())), nontrivial=cls == "result_full",
                 outcome=None, cls=cls, sample=dict(case, outcome_class=cls) if acc.evaluations % 41 == 1 else None)
    return acc


def run(ctx):
    mvs = sorted({tuple(sorted(v)) for v in itertools.product((1, 2, 3), repeat=4)}) if ctx.quick else \
        list(itertools.product((1, 2, 3), repeat=4))
    offsets = (0, 3) if ctx.quick else (0, 1, 3, 6)
    cases = []
    for mv in mvs:
        for off in offsets:
            for folds in (2, 3, 4, 5, 6):
                for fdr in FDRS:
                    for fo in (True, False):
                        cases.append(dict(mults=list(mv), offset=off, folds=folds, fdr=fdr, first_only=fo))
            for fdr in DYADIC:
                for folds in (2, 3, 4):
                    cases.append(dict(mults=list(mv), offset=off, folds=folds, fdr=fdr, first_only=True))
            for fdr in (0.13, 0.25):
                cases.append(dict(mults=list(mv), offset=off, folds=3, fdr=fdr, first_only=True, est="both"))
                cases.append(dict(mults=list(mv), offset=off, folds=3, fdr=fdr, first_only=True, est="offset"))
            for fdr in (0.26, 0.51):  # evaluation FDR looser than the model's training FDR
                cases.append(dict(mults=list(mv), offset=off, folds=3, fdr=fdr, first_only=True, train_fdr=0.13))
            for fdr in (0.13, 0.25):  # prediction in row chunks smaller than the table
                for pc in (7, 25):
                    cases.append(dict(mults=list(mv), offset=off, folds=3, fdr=fdr, first_only=True, pred_chunk=pc))
            for files in (2,):
                for fdr in FDRS:
                    cases.append(dict(mults=list(mv), offset=off, folds=3, fdr=fdr, first_only=True, files=files))
            cases.append(dict(mults=list(mv), offset=off, folds=3, fdr=1e-4, first_only=True))
            for fdr in (0.13, 0.25):  # the same paths were analysed before with other content
                for files in (1, 2):
                    cases.append(dict(mults=list(mv), offset=off, folds=3, fdr=fdr, first_only=True, files=files, history=True))
    if not ctx.quick:
        cases += [dict(c, seed=7) for c in cases if c["fdr"] in (0.13, 0.51) and c["first_only"]]
    cases = ctx.rotate(cases)
    items = [cases[i:i + 12] for i in range(0, len(cases), 12)]
    ctx.seed = 0
    ctx.pmap(worker, items)
    ctx.exhaustive = True
    ctx.info["bound"] = {"multiplicity_vectors": len(mvs), "offsets": list(offsets), "folds": [2, 6], "fdrs": list(FDRS)}


def replay(case):
    acc = Acc()
    check_case(case, acc)
    return acc.violations
