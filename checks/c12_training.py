"""C12 - training feeds the estimator rows and labels of the same PSM, in any order (E1).

All n! row permutations of small datasets (n = 6..8) x shuffle on/off x iteration counts x estimator kind;
every fit(X, y) / scoring call of the recording estimator is checked against the C01 reference labels, and the
learned closed-form model and its predictions must not depend on row order or on the shuffle switch.
"""

from __future__ import annotations

import itertools
import shutil

import numpy as np
import pandas as pd

from mc.core import Acc, Violation, worker_scratch, classify_exception, exc_signature
from mc.recorders import make_model
from mc.ref.tdc import ref_qvalues

PROPERTY = "C12"
SIZE_MODULES = ['mokapot.model', 'mokapot.dataset']  # see mc.runner._sized_passes
LEVEL = "exploration"
RULE = (
    "case = (dataset of n PSMs, row permutation (all n!), shuffle flag, max_iter, estimator kind); every logged "
    "fit/score call is an oracle evaluation. Non-trivial iff the permutation is not the identity or shuffling is on "
    "(rows reach the estimator in a different order than they are stored); distinct by the full case tuple"
)
ASSUMPTIONS = [
    "the estimator is deterministic and order independent by construction (class-mean difference over sorted "
    "columns), so any dependence on row order comes from Model.fit",
    "row identity = value of the first feature (pairwise distinct)",
    "first-iteration positives: the accepted targets of any (feature, direction) attaining the best count are accepted",
]

TRAIN_FDR = 0.5
CLASSES = {6: "HHHDLD", 7: "HHHDLDH", 8: "HHHDLDHH", 9: "HHHDLDHHL"}


# variant 20 (used with the two-level "stepped" learner): the upper level holds 4 high targets + 1 decoy (accepted at 0.5
# as a whole: (1+1)/4), the lower level 2 low targets + 2 decoys ((3+1)/6 > 0.5: rejected as a whole although a prefix
# "targets first" of that tie group would pass)
CLASSES_V = {20: "HHHHDLLDD"}


def base_rows(n, variant=0):
    rows = []
    for i, c in enumerate(CLASSES_V.get(variant, CLASSES[n])):
        key = {"H": 100.0, "D": 10.0, "L": 10.5}[c] + i + 0.25 * (variant % 10)
        if variant >= 10:
            key = -key  # the best single feature is lower-is-better
        f2 = ({"H": 3.0, "D": 1.0, "L": 2.0}[c] if variant < 10 else 0.0) + ((i * 7 + variant) % 5) * 0.3
        rows.append(dict(key=key, f2=f2, f3=float((i * 3 + variant) % 4), target=c != "D", spec=i, pep=f"P{i}"))
    return rows


def make_psms(rows, feature_order=("key", "f2", "f3")):
    from mokapot import LinearPsmDataset

    df = pd.DataFrame(rows)
    cols = ["target", "spec", "pep"] + list(feature_order)
    return LinearPsmDataset(df[cols], target_column="target", spectrum_columns="spec", peptide_column="pep",
                            feature_columns=list(feature_order), copy_data=True)


FDR_NOW = [TRAIN_FDR]  # the training FDR of the model whose log is being judged


def accepted(keys, scores, label, desc=True):
    lab = [label[k] for k in keys]
    q = ref_qvalues(list(scores), lab, desc)
    return {k for k, (a, b), l in zip(keys, q, lab) if l and a / b <= FDR_NOW[0]}


def check_logs(rows, log, add, kind):
    label = {r["key"]: r["target"] for r in rows}
    decoys = {k for k, t in label.items() if not t}
    allkeys = list(label)
    # admissible first-iteration positive sets
    best, firsts = -1, []
    for f in ("key", "f2", "f3"):
        for desc in (True, False):
            pos = accepted(allkeys, [next(r[f] for r in rows if r["key"] == k) for k in allkeys], label, desc)
            if len(pos) > best:
                best, firsts = len(pos), [pos]
            elif len(pos) == best:
                firsts.append(pos)
    prev_scores = None
    nfit = 0
    for e in log:
        if e[0] == "score":
            if e[1] == "train":
                prev_scores = dict(zip(e[2], e[3]))
                if set(e[2]) != set(allkeys) or len(e[2]) != len(allkeys):
                    add("scoring-rows-differ", f"training-phase scoring saw {len(e[2])} rows, dataset has {len(allkeys)}")
            continue
        _, phase, keys, y, ncol = e
        nfit += 1
        unknown = [k for k in keys if k not in label]
        if unknown:
            add("fit-unknown-row", f"fit received a row that is not in the dataset: {unknown[:3]}")
            continue
        pos = {k for k, v in zip(keys, y) if v == 1}
        neg = {k for k, v in zip(keys, y) if v == 0}
        if len(keys) != len(set(keys)):
            add("fit-row-twice", "a PSM was passed twice to fit")
        bad_pos = [k for k in pos if not label[k]]
        bad_neg = [k for k in neg if label[k]]
        if bad_pos or bad_neg:
            add("fit-label-of-other-psm", f"fit call {nfit}: rows and labels are misaligned: decoy rows labelled positive "
                f"{bad_pos[:3]}, target rows labelled negative {bad_neg[:3]}")
            continue
        if neg != decoys:
            add("fit-negatives-not-all-decoys", f"fit call {nfit}: negatives {sorted(neg)} != decoys {sorted(decoys)}")
        if nfit == 1:
            if pos not in firsts:
                add("fit-first-positives", f"first fit: positives {sorted(pos)} are not the accepted targets of a best feature")
        else:
            if prev_scores is None:
                add("fit-without-scores", "second fit without a preceding scoring call")
                continue
            want = accepted(list(prev_scores), [prev_scores[k] for k in prev_scores], label, True)
            if kind == "proba" and len(set(prev_scores.values())) < len(prev_scores):
                continue  # tied probabilities: acceptance not unique
            if pos != want:
                add("fit-positives-not-accepted-targets", f"fit call {nfit}: positives {sorted(pos)} but the targets accepted at "
                    f"train_fdr under the current scores are {sorted(want)}")
    return nfit


def run_fit(rows, case):
    from mc import recorders

    psms = make_psms(rows)
    model = make_model(case["kind"], first_only=False, max_iter=case["max_iter"], shuffle=case["shuffle"], rng=case["seed"])
    del recorders.SEARCH_LOG[:]
    try:
        model.fit(psms)
    except Exception as e:
        e.model_ = model
        raise
    model.search_log_ = list(recorders.SEARCH_LOG)
    return model


def refusal_justified(rows, model, max_iter):
    """Model.fit may refuse ('performs worse') only if some iteration accepts no target, or the last iteration accepts
    fewer targets than the first fit had positives / than the best single feature - judged by the reference on the
    logged scores (ranked higher-is-better, as the statement says)."""
    label = {r["key"]: r["target"] for r in rows}
    log = model.estimator.log_ if hasattr(model.estimator, "log_") else []
    fits = [e for e in log if e[0] == "fit"]
    scs = [e for e in log if e[0] == "score" and e[1] == "train"]
    if not fits or not scs:
        return True  # refused before the estimator produced any score: nothing to judge
    passed = [len(accepted(list(e[2]), list(e[3]), label, True)) for e in scs]
    if any(p == 0 for p in passed):
        return True
    if len(scs) < max_iter:
        return False  # stopped early although every iteration accepted targets
    start_pos = sum(1 for v in fits[0][3] if v == 1)
    best = 0
    for f in ("key", "f2", "f3"):
        vals = {r["key"]: r[f] for r in rows}
        for desc in (True, False):
            best = max(best, len(accepted(list(label), [vals[k] for k in label], label, desc)))
    return passed[-1] < start_pos or passed[-1] < best


def check_search(rows, model, add):
    """The hyper-parameter search (estimators wrapped in a search object) must also get rows and labels of the same PSM:
    positives = accepted targets of a best feature, negatives = all decoys."""
    label = {r["key"]: r["target"] for r in rows}
    for _, keys, y in getattr(model, "search_log_", []):
        bad_pos = [k for k, v in zip(keys, y) if v == 1 and not label.get(k, False)]
        bad_neg = [k for k, v in zip(keys, y) if v == 0 and label.get(k, True)]
        if bad_pos or bad_neg:
            add("search-label-of-other-psm", f"the hyper-parameter search received misaligned rows/labels: decoy rows labelled "
                f"positive {bad_pos[:3]}, target rows labelled negative {bad_neg[:3]}")
        elif {k for k, v in zip(keys, y) if v == 0} != {k for k, t in label.items() if not t}:
            add("search-negatives-not-all-decoys", "the hyper-parameter search did not receive exactly the decoys as negatives")


def check_case(case, acc, ref_cache=None):
    rows0 = base_rows(case["n"], case.get("variant", 0))
    perm = case["perm"]
    rows = [rows0[i] for i in perm]
    sigs = set()

    def add(sig, msg, **kw):
        if sig not in sigs:
            sigs.add(sig)
            acc.violation(Violation(sig, msg, case, **kw))

    ref_key = (case["n"], case.get("variant", 0), case["kind"], case["max_iter"])
    if ref_cache is not None and ref_key not in ref_cache:
        try:
            rm = run_fit(rows0, dict(case, shuffle=True, seed=1))
            ref_cache[ref_key] = (rm.estimator.w_.copy(), rm.estimator.b_, rm.predict(make_psms(rows0)))
        except Exception as e:
            ref_cache[ref_key] = exc_signature(e)
    ref = ref_cache.get(ref_key) if ref_cache is not None else None
    try:
        model = run_fit(rows, case)
    except Exception as e:
        cls, desc = classify_exception(e)
        m = getattr(e, "model_", None)
        if cls == "crash":
            add("crash:" + exc_signature(e), f"Model.fit crashed for row order {perm}: {desc}")
        if m is not None and cls != "crash" and "performs worse" in str(e) and hasattr(m.estimator, "log_"):
            # the fit calls made before the refusal obey the label rule like any other
            check_logs(rows, m.estimator.log_, add, case["kind"])
        if cls == "crash":
            pass
        elif m is not None and "performs worse" in str(e) and not refusal_justified(rows, m, case["max_iter"]):
            add("training-refused-although-targets-are-accepted",
                f"Model.fit raised '{e}' for row order {perm}, shuffle={case['shuffle']}, although under the logged model "
                "scores (ranked higher-is-better) every iteration accepts targets at train_fdr and the last one at least as "
                "many as the first fit's positives and the best single feature")
        elif ref is not None and ref != exc_signature(e):
            # the reference execution (stored order, shuffle on) trains: so must every other order / shuffle flag
            add("training-fails-for-this-order:" + exc_signature(e),
                f"Model.fit raised for row order {perm}, shuffle={case['shuffle']} but not for the stored order: {desc}")
        return "raised_like_reference" if ref == exc_signature(e) else "raised"
    if isinstance(ref, str):
        add("training-succeeds-only-for-this-order", f"Model.fit fails for the stored order ({ref}) but trains for row order {perm}, shuffle={case['shuffle']}")
        return "trained"
    nfit = check_logs(rows, model.estimator.log_, add, case["kind"])
    if case["kind"].startswith("grid:"):
        if not model.search_log_:
            add("search-not-called", "the search wrapper was never fitted")
        check_search(rows, model, add)
    if nfit != case["max_iter"]:
        add("fit-count", f"{nfit} fit calls for max_iter={case['max_iter']}")
    # invariance of the learned model and of its predictions
    if ref is not None:
        w, b, pred = ref
        got = model.predict(make_psms(rows0))
        if not (np.allclose(model.estimator.w_, w, rtol=1e-9, atol=1e-12) and abs(model.estimator.b_ - b) <= 1e-9 * max(1, abs(b))):
            add("model-depends-on-row-order", f"learned weights differ for row order {perm} shuffle={case['shuffle']}",
                expected=list(w) + [b], observed=list(model.estimator.w_) + [model.estimator.b_])
        elif not np.allclose(got, pred, rtol=1e-9, atol=1e-9):
            add("predictions-depend-on-row-order", "predictions differ", expected=pred, observed=got)
    return "trained"


def shared_second_fit(rows_s, tag, fdr_a, fdr_b, case, acc):
    """ONE dataset object serves a model with train_fdr `fdr_a`, then a second model with `fdr_b`; the first fit call of the
    second model is judged (start labels = targets accepted at fdr_b by a best feature)."""
    psms_shared = make_psms(rows_s)
    try:
        try:
            make_model("linear", first_only=False, max_iter=1, shuffle=False, rng=1, train_fdr=fdr_a).fit(psms_shared)
        except RuntimeError as e:
            if "performs worse" not in str(e):
                raise
        m2 = make_model("linear", first_only=False, max_iter=1, shuffle=False, rng=1, train_fdr=fdr_b)
        try:
            m2.fit(psms_shared)
        except RuntimeError as e:
            if "performs worse" not in str(e):
                raise  # "performs worse" is judged elsewhere; here only the start labels (first fit call) matter
        first_fit = [e for e in m2.estimator.log_ if e[0] == "fit"][:1]
        if not first_fit:
            raise RuntimeError("no fit call")
        FDR_NOW[0] = fdr_b
        sigs2 = []
        check_logs(rows_s, first_fit, lambda sig, msg, **kw: sigs2.append((sig, msg)), "linear")
        acc.count("shared_dataset_second_fits")
        for sig, msg in sigs2[:1]:
            acc.violation(Violation("second-model-on-same-dataset:" + sig, f"a second model (train_fdr {fdr_b}) fitted on a "
                                    f"dataset object that already served a model with train_fdr {fdr_a} (table {tag}): {msg}",
                                    dict(case, extras=True)))
    except (RuntimeError, ValueError):
        acc.count("shared_dataset_second_fit_refused")
    finally:
        FDR_NOW[0] = TRAIN_FDR


def direction_fit(rows_s, tag, feature, fdr, case, acc):
    """Model(direction=<feature>): the start labels must be the targets accepted at the model's train_fdr by that feature
    in its better direction."""
    label = {r["key"]: r["target"] for r in rows_s}
    keys = list(label)
    FDR_NOW[0] = fdr
    try:
        cands = [accepted(keys, [next(r[feature] for r in rows_s if r["key"] == k) for k in keys], label, d) for d in (True, False)]
    finally:
        FDR_NOW[0] = TRAIN_FDR
    best = max(len(c) for c in cands)
    cands = [c for c in cands if len(c) == best]
    m = make_model("linear", first_only=False, max_iter=1, shuffle=False, rng=1, train_fdr=fdr, direction=feature)
    try:
        m.fit(make_psms(rows_s))
    except RuntimeError as e:
        if "performs worse" not in str(e) and best > 0:
            acc.violation(Violation("direction-fit-refused", f"Model(direction={feature!r}, train_fdr={fdr}) on table {tag} raised "
                                    f"'{e}' although the feature accepts {best} targets", dict(case, extras=True)))
            return
    except ValueError:
        pass
    acc.count("direction_fits")
    first_fit = [e for e in m.estimator.log_ if e[0] == "fit"][:1]
    if not first_fit:
        if best > 0:
            acc.count("direction_fit_without_fit_call")
        return
    pos = {k for k, v in zip(first_fit[0][2], first_fit[0][3]) if v == 1}
    if pos not in cands:
        acc.violation(Violation("direction-start-labels", f"Model(direction={feature!r}, train_fdr={fdr}) on table {tag}: first fit "
                                f"got positives {sorted(pos)}, the targets accepted at train_fdr by that feature are "
                                f"{[sorted(c) for c in cands]}", dict(case, extras=True)))


def extras_case(case, acc):
    """Feature-column permutations at prediction time; save/load round trip."""
    from mokapot.model import save_model, load_model

    rows0 = base_rows(case["n"], case.get("variant", 0))
    try:
        model = run_fit(rows0, dict(case, perm=list(range(case["n"]))))
    except RuntimeError:
        acc.count("extras_skipped_training_refused")
        return
    pred = model.predict(make_psms(rows0))
    for order in itertools.permutations(("key", "f2", "f3")):
        got = model.predict(make_psms(rows0, order))
        acc.count("feature_order_predictions")
        # tolerance: a re-ordered frame has another memory layout, BLAS may sum in another order (1 ulp)
        if not np.allclose(got, pred, rtol=1e-9, atol=1e-9):
            acc.violation(Violation("predict-matches-features-by-position",
                                    f"prediction changed when the feature columns were supplied in order {order}",
                                    dict(case, extras=True), expected=pred, observed=got))
    work = worker_scratch().sub()
    try:
        p = work / "m.pkl"
        save_model(model, p)
        m2 = load_model(p)
        got = m2.predict(make_psms(rows0))
        acc.count("save_load_roundtrips")
        if not np.array_equal(got, pred):
            acc.violation(Violation("reloaded-model-predicts-differently", "save_model/load_model changed predictions",
                                    dict(case, extras=True), expected=pred, observed=got))
    finally:
        shutil.rmtree(work, ignore_errors=True)
    # ONE dataset object used to fit two models with different training FDRs: the second model's start labels must be
    # the targets accepted at ITS training FDR
    if case["kind"] == "linear":
        # the case's own rows, and two tables where the accepted targets differ between the two FDRs (5 vs 6)
        for rows_s, tag in ((rows0, "own"), (base_rows(8, 10), "v10"), (base_rows(9, 11), "v11")):
            for fdr_a, fdr_b in ((0.5, 0.26), (0.26, 0.5)):
                shared_second_fit(rows_s, tag, fdr_a, fdr_b, case, acc)
            # the starting feature named by the user
            for feature in ("key", "f2", "f3"):
                for fdr in (0.5, 0.26):
                    direction_fit(rows_s, tag, feature, fdr, case, acc)
    # The SAME Model object fitted again on the same PSMs with the feature columns in another order: what the model
    # predicts for its training rows must be what its estimator returned for those rows in the last training iteration
    # (features are matched by name, also after a second fit).  A re-fit starts from the trained model, so it is NOT
    # compared with a fresh model.
    def last_scores(m, fitted_order):
        e = [x for x in m.estimator.log_ if x[0] == "score" and x[1] == "train"][-1]
        j = list(fitted_order).index("key")  # position of the key feature in the rows the estimator saw while training
        return {row[j]: v for row, v in zip(e[5], e[3])}

    model = make_model(case["kind"], first_only=False, full=True, max_iter=case["max_iter"], shuffle=case["shuffle"], rng=case["seed"])
    try:
        model.fit(make_psms(rows0))
    except (RuntimeError, ValueError):
        return
    for order in (("key", "f2", "f3"), ("f3", "key", "f2"), ("f2", "f3", "key")) if case["kind"] == "linear" else ():
        try:
            if order != ("key", "f2", "f3"):
                model.fit(make_psms(rows0, order))
        except (RuntimeError, ValueError):
            acc.count("refit_skipped_training_refused")
            continue
        acc.count("refit_predictions")
        want = last_scores(model, order)
        for target_order in (("key", "f2", "f3"), order):
            got = model.predict(make_psms(rows0, target_order))
            exp = np.array([want[r["key"]] for r in rows0])
            if not np.allclose(got, exp, rtol=1e-9, atol=1e-9):
                acc.violation(Violation("refit-uses-stale-feature-order" if order != ("key", "f2", "f3") else "predict-differs-from-training-scores",
                                        f"after fitting on feature order {order} the model's predictions for its training rows "
                                        f"(frame order {target_order}) are not the scores its estimator gave those rows in the "
                                        "last training iteration", dict(case, extras=True), expected=exp, observed=got))
                break


def worker(item):
    acc = Acc()
    cache = {}
    for case in item:
        if case.get("extras"):
            extras_case(case, acc)
            acc.case(key=repr(case), nontrivial=True, cls="extras")
            continue
        cls = check_case(case, acc, cache)
        ident = list(case["perm"]) == sorted(case["perm"])
        acc.case(key=(case["n"], case.get("variant", 0), tuple(case["perm"]), case["shuffle"], case["max_iter"], case["kind"], case["seed"]),
                 nontrivial=(not ident) or case["shuffle"], outcome=cls, cls=cls,
                 sample=case if acc.evaluations % 1511 == 5 else None)
    return acc


def structured_perms(n, count):
    """Block permutations x reversals for larger tables."""
    blocks = [list(range(i, min(i + n // 4, n))) for i in range(0, n, n // 4)]
    out = []
    for bp in itertools.permutations(range(len(blocks))):
        for rev in itertools.product((0, 1), repeat=len(blocks)):
            p = []
            for bi in bp:
                b = blocks[bi]
                p += b[::-1] if rev[bi] else b
            out.append(p)
            if len(out) >= count:
                return out
    return out


def run(ctx):
    cases = []
    plan = [(6, (1, 3)), (7, (2,))] if ctx.quick else [(6, tuple(range(1, 11))), (7, (1, 2, 3, 5)), (8, (2,))]
    for n, iters in plan:
        for perm in itertools.permutations(range(n)):
            for shuffle in (True, False):
                for mi in iters:
                    kinds = ("linear", "proba") if (n == 6 or not ctx.quick) and mi <= 3 and n < 8 else ("linear",)
                    for kind in kinds:
                        cases.append(dict(n=n, perm=list(perm), shuffle=shuffle, max_iter=mi, kind=kind, seed=1))
    # estimators wrapped in a hyper-parameter search (like the default PercolatorModel)
    for perm in itertools.permutations(range(6)):
        for shuffle in (True, False):
            cases.append(dict(n=6, perm=list(perm), shuffle=shuffle, max_iter=2, kind="grid:linear", seed=1))
    if not ctx.quick:
        for perm in itertools.permutations(range(7)):
            for shuffle in (True, False):
                cases.append(dict(n=7, perm=list(perm), shuffle=shuffle, max_iter=2, kind="grid:linear", seed=2))
    # best single feature lower-is-better
    for perm in itertools.permutations(range(6)):
        for shuffle in (True, False):
            cases.append(dict(n=6, variant=10, perm=list(perm), shuffle=shuffle, max_iter=3, kind="linear", seed=1))
    for perm in structured_perms(8, 96):
        cases.append(dict(n=8, variant=11, perm=perm, shuffle=True, max_iter=3, kind="linear", seed=2))
    # second dataset variant and other seeds on a structured subset
    for variant in (1, 2):
        for perm in structured_perms(8, 200 if ctx.quick else 384):
            for shuffle in (True, False):
                cases.append(dict(n=8, variant=variant, perm=perm, shuffle=shuffle, max_iter=3, kind="linear", seed=variant + 1))
    # tied model scores: a two-level learner puts targets and decoys into one tie group at the training-FDR boundary
    for perm in structured_perms(9, 600 if ctx.quick else 3840):
        for shuffle in (True, False):
            for mi in (2, 3):
                cases.append(dict(n=9, variant=20, perm=perm, shuffle=shuffle, max_iter=mi, kind="stepped", seed=3))
    for n in (6, 7, 8):
        for kind in ("linear", "proba"):
            for mi in (1, 3):
                cases.append(dict(n=n, max_iter=mi, kind=kind, shuffle=True, seed=1, extras=True))
    cases = ctx.rotate(cases)
    k = 400
    items = [cases[i:i + k] for i in range(0, len(cases), k)]
    ctx.seed = 0
    ctx.pmap(worker, items)
    ctx.exhaustive = True
    ctx.info["bound"] = {"all_row_permutations_n": [p[0] for p in plan], "cases": len(cases)}


def replay(case):
    acc = Acc()
    if case.get("extras"):
        extras_case(case, acc)
    else:
        check_case(case, acc, {})
    return acc.violations
