"""C15 - picked protein: one entry per target/decoy protein-group pair, won by its best unique peptide (E1).

Databases: C16's alphabet restricted to mirrored databases - t <= 3 target proteins, each a non-empty
subset of four tryptic peptides (up to renaming of proteins and peptides), every target T accompanied
by decoy_T built from the decoy counterparts of T's peptides, plus three ballast pairs with one
private peptide each; every order of the 2t core FASTA entries (executions are de-duplicated on what
read_fasta returns, the only thing picked_protein sees).
Peptide tables: every subset R (|R| <= bound) of the target and decoy peptides of the database is
retained, with every assignment of distinct score ranks (all |R|! permutations); shared peptides
included; ballast peptides always present with the lowest scores (one ballast pair is won by its
decoy, so the protein level keeps both classes).  Notation axis: flanks K.x.A and -.x.-, [+16] and
(ox) after a residue, n[+42] tag, combinations, mixed tables, and one peptide present in two notations.
Observed at (a) mokapot.picked_protein.picked_protein and (b) targets.proteins / decoys.proteins
written by assign_confidence(proteins=...) on a generated PSM table (one PSM per peptide).
Oracle: mc/ref/picked.py (entries) + mc/ref/tdc.py (q-values over exactly these entries).
"""

from __future__ import annotations

import itertools
import json
import os
import shutil

import numpy as np
import pandas as pd

from mc.core import Acc, Violation, worker_scratch, classify_exception, exc_signature
from mc.ref.digest import ref_digest
from mc.ref.picked import Model, compare_entries, ref_entry_qvalues, ref_strip

PROPERTY = "C15"
SIZE_MODULES = ['mokapot.picked_protein', 'mokapot.confidence']  # see mc.runner._sized_passes
LEVEL = "exploration"
RULE = (
    "case = (mirrored database: multiset of target proteins as peptide subsets, canonical up to renaming; order of "
    "the FASTA entries; peptide table: retained peptides with their score ranks, notation variant, row order; "
    "observation point direct|end-to-end). Databases, entry orders, retained subsets and rank permutations are "
    "enumerated completely within the bound, simplest first; entry orders that make read_fasta return identical "
    "maps are executed once. Non-trivial iff the table holds two unique peptides of one pair (a competition is "
    "decided), or a shared peptide (must be ignored), or a decorated peptide (must be stripped). Distinct by "
    "(database, read_fasta result, table, notation, row order, observation point)."
)
ASSUMPTIONS = [
    "the FASTA file contains the decoys (decoy_<name>, mirrored peptide structure), so 'decoy counterpart' is well "
    "defined; target-only databases (random decoy matching) are not explored",
    "every peptide of a table maps to the database (unique or shared) - picked_protein refuses tables with > 10 % "
    "unmapped peptides by design; a tiny negative family only records how such tables end",
    "scores are pairwise distinct; peptide labels agree with the database (a peptide of a decoy protein is a decoy)",
    "notations: one flanking token before the first and after the last '.', modifications in [...] or (...), "
    "lower-case terminal tags; no table is written entirely in lower case",
    "protein q-values are compared with tolerance 1e-6 (float32 storage, text round trip); PEPs only for range",
    "ballast pairs (three for the direct call, six end to end) carry the lowest scores and take part in the oracle "
    "like every other pair; end to end needs six because the PEP step (qvality) of assign_confidence crashes on a "
    "protein level with fewer than five entries, which is outside this property",
]

TP = ["ACDEFGK", "HILMNPK", "QSTVWYK", "AGILSTR"]
DP = [p[:-1][::-1] + p[-1] for p in TP]
TB = ["AAGGSSK", "CCDDEEK", "FFHHIIK", "LLMMNNK", "PPQQSSK", "TTVVWWK"]
DB = [p[:-1][::-1] + p[-1] for p in TB]
PEPS = TP + DP + TB + DB  # tokens 0-3 target, 4-7 decoy counterparts, 8-13 ballast targets, 14-19 ballast decoys
NBMAX = len(TB)
# ballast pairs per observation point: three for the direct call; six end to end, because the PEP step (qvality)
# of assign_confidence crashes on a protein level with fewer than five entries - a matter outside this property
NB_OF = {"direct": 3, "e2e": 6}
UNMAPPED = ["WWWWWWK", "YYYYYYK", "VVVVVVK"]
PREFIX = "decoy_"
NOTATIONS = ["plain", "flankKA", "flank--", "mod[+16]", "mod(ox)", "nterm", "all"]
FEW_ORDERS_6 = [(0, 1, 2, 3, 4, 5), (5, 4, 3, 2, 1, 0), (0, 1, 2, 5, 4, 3), (3, 4, 5, 0, 1, 2), (0, 3, 1, 4, 2, 5),
                (3, 0, 4, 1, 5, 2), (2, 1, 0, 3, 4, 5), (1, 2, 0, 5, 3, 4), (0, 4, 2, 3, 1, 5), (5, 0, 4, 1, 3, 2),
                (1, 0, 2, 4, 5, 3), (4, 5, 3, 1, 2, 0), (0, 1, 2, 4, 3, 5), (1, 0, 2, 3, 4, 5), (0, 2, 1, 3, 4, 5)]


def is_target_token(t):
    return t < 4 or 8 <= t < 8 + NBMAX


def write_notation(plain, variant, k=0):
    """The same peptide in another notation; k varies the modified position."""
    pos = 1 + (k % (len(plain) - 1))
    if variant == "plain":
        return plain
    if variant == "flankKA":
        return f"K.{plain}.A"
    if variant == "flank--":
        return f"-.{plain}.-"
    if variant == "mod[+16]":
        return plain[:pos] + "[+16]" + plain[pos:]
    if variant == "mod(ox)":
        return plain[:pos] + "(ox)" + plain[pos:]
    if variant == "nterm":
        return "n[+42]" + plain
    if variant == "all":
        return "R.n[+42]" + plain[:pos] + "[+15.995]" + plain[pos:-1] + "(ph)" + plain[-1:] + ".-"
    raise ValueError(variant)


# ---------------------------------------------------------------------------------------------------
# databases
# ---------------------------------------------------------------------------------------------------
# accession naming schemes: plain "T1".. and names spelled only with letters of the decoy prefix (gene-symbol like)
SCHEME = ["T"]
PREFIX_LETTER_NAMES = ["cyc1", "ded1", "dcd2", "ode3"]


def core_entries(targets):
    if SCHEME[0] == "prefix":
        ent = [(PREFIX_LETTER_NAMES[i], tuple(t)) for i, t in enumerate(targets)]
    else:
        ent = [(f"T{i + 1}", tuple(t)) for i, t in enumerate(targets)]
    ent += [(PREFIX + n, tuple(x + 4 for x in t)) for n, t in ent]
    return ent


def ballast_entries(nb):
    out = []
    for i in range(nb):
        out += [(f"B{i + 1}", (8 + i,)), (f"{PREFIX}B{i + 1}", (8 + NBMAX + i,))]
    return out


def fasta_text(entries):
    return "".join(f">{n}\n{''.join(PEPS[t] for t in toks)}\n" for n, toks in entries)


def prot_peps_of(entries):
    pp = {}
    for n, toks in entries:
        seq = "".join(PEPS[t] for t in toks)
        must, allowed = ref_digest(seq, "[KR]", 0, 6, 50, False, False)
        assert must == allowed == {PEPS[t] for t in toks}
        pp[n] = frozenset(must)
    return pp


def canonical_databases(t):
    """Multisets of t non-empty subsets of {0..3}, one representative per class of peptide renamings."""
    subs = [c for r in range(1, 5) for c in itertools.combinations(range(4), r)]
    seen, out = set(), []
    for ms in itertools.combinations_with_replacement(subs, t):
        forms = []
        for perm in itertools.permutations(range(4)):
            forms.append(tuple(sorted(tuple(sorted(perm[i] for i in s)) for s in ms)))
        canon = min(forms)
        if canon not in seen:
            seen.add(canon)
            # prefer the representative that uses the lowest peptide indices
            out.append(canon)
    return out


def read_db(path, entries):
    import mokapot

    path.write_text(fasta_text(entries))
    return mokapot.read_fasta(str(path), missed_cleavages=0, min_length=6, max_length=50, enzyme="[KR]",
                              decoy_prefix=PREFIX)


def proteins_signature(p):
    return json.dumps([sorted(p.peptide_map.items()), sorted(p.shared_peptides.items()),
                       sorted(p.protein_map.items()), p.has_decoys])


def db_variants(targets, orders, path, nb):
    """Entry orders of the core (ballast appended) that give pairwise different read_fasta results."""
    core = core_entries(targets)
    k = len(core)
    perms = list(itertools.permutations(range(k))) if orders == "all" else [p for p in orders if len(p) == k]
    seen, out = set(), []
    for perm in perms:
        entries = [core[i] for i in perm] + ballast_entries(nb)
        prot = read_db(path, entries)
        sig = proteins_signature(prot)
        if sig not in seen:
            seen.add(sig)
            out.append((perm, entries, prot))
    return out, len(perms)


# ---------------------------------------------------------------------------------------------------
# tables
# ---------------------------------------------------------------------------------------------------
def core_peptides(targets):
    u = sorted({x for t in targets for x in t})
    return u + [x + 4 for x in u]


def tables(peps, rmax):
    """Every retained subset R (|R| <= rmax) with every rank permutation: tuples of (token, rank)."""
    for r in range(0, min(rmax, len(peps)) + 1):
        for R in itertools.combinations(peps, r):
            for ranks in itertools.permutations(range(r)):
                yield tuple(zip(R, ranks))


def build_rows(table, notation="plain", double=None, nb=3):
    """table: [(token, rank)], rank 0 = best.  Ballast rows always present, lowest scores; ballast pairs 2 and 5
    are won by their decoys.  notation: one of NOTATIONS or 'mixed'.  double = (token, rank) adds a second row for that
    peptide in another notation."""
    rows = []
    for j, (tok, rank) in enumerate(table):
        var = NOTATIONS[j % len(NOTATIONS)] if notation == "mixed" else notation
        plain = PEPS[tok]
        rows.append(dict(written=write_notation(plain, var, j), plain=plain, score=100.0 - rank,
                         target=is_target_token(tok), token=tok))
    if double is not None:
        tok, rank = double
        plain = PEPS[tok]
        var = "mod[+16]" if notation == "plain" else "plain"
        rows.append(dict(written=write_notation(plain, var, 3), plain=plain, score=100.0 - rank,
                         target=is_target_token(tok), token=tok))
    s = 50.0
    for i in range(nb):
        hi, lo = (s, s - 0.5) if i % 3 != 1 else (s - 0.5, s)
        var = notation if notation != "mixed" else NOTATIONS[(i + 2) % len(NOTATIONS)]
        rows.append(dict(written=write_notation(PEPS[8 + i], var, i), plain=PEPS[8 + i], score=hi, target=True, token=8 + i))
        rows.append(dict(written=write_notation(PEPS[8 + NBMAX + i], var, i), plain=PEPS[8 + NBMAX + i], score=lo,
                         target=False, token=8 + NBMAX + i))
        s -= 1.0
    for r in rows:
        assert ref_strip(r["written"]) == r["plain"], r
    return rows


def order_rows(rows, how):
    if how == "desc":
        return sorted(rows, key=lambda r: -r["score"])
    if how == "asc":
        return sorted(rows, key=lambda r: r["score"])
    if how == "rot":
        k = len(rows) // 2
        return rows[k:] + rows[:k]
    return list(rows)


def is_nontrivial(model, rows, nb):
    per_pair = {}
    for r in rows[: len(rows) - 2 * nb]:
        g = model.unique.get(r["plain"])
        if g is None:
            return True  # a shared peptide is in the table
        per_pair[model.pair_of[g]] = per_pair.get(model.pair_of[g], 0) + 1
    return any(v >= 2 for v in per_pair.values()) or any(r["written"] != r["plain"] for r in rows)


# ---------------------------------------------------------------------------------------------------
# observation points
# ---------------------------------------------------------------------------------------------------
def observe_direct(prot, rows, rng_seed, index=None):
    from mokapot.picked_protein import picked_protein

    df = pd.DataFrame({"Label": [bool(r["target"]) for r in rows], "peptide": [r["written"] for r in rows],
                       "score": [float(r["score"]) for r in rows]})
    if index == "rev":  # the row labels a sorted / filtered / sampled frame carries: not 0..n-1 in order
        df.index = list(range(len(df) - 1, -1, -1))
    elif index == "gaps":
        df.index = [3 * i + 7 for i in range(len(df))]
    res = picked_protein(df, "Label", "peptide", "score", prot, np.random.default_rng(rng_seed))
    need = ["mokapot protein group", "best peptide", "stripped sequence", "score", "Label"]
    missing = [c for c in need if c not in res.columns]
    if missing:
        return None, f"columns {missing} missing from the result ({list(res.columns)})"
    obs = [dict(group=g, best=b, stripped=s, score=float(sc), target=bool(t))
           for g, b, s, sc, t in zip(res["mokapot protein group"], res["best peptide"], res["stripped sequence"],
                                      res["score"], res["Label"])]
    return obs, None


def observe_e2e(prot, rows, rng_seed, work, chunk=None):
    from mokapot.confidence import assign_confidence
    from mc.datasets import make_dataset, read_result, set_chunks, DEFAULT_CHUNKS

    # chunk: the streaming chunk size of confidence assignment (rows); smaller than the peptide table when given
    set_chunks(**(dict(DEFAULT_CHUNKS, CONFIDENCE_CHUNK_SIZE=chunk) if chunk else DEFAULT_CHUNKS))
    n = len(rows)
    df = pd.DataFrame({
        "SpecId": [f"s{i}" for i in range(n)],
        "Label": [1 if r["target"] else -1 for r in rows],
        "ScanNr": list(range(1, n + 1)),
        "ExpMass": [500.25 + i for i in range(n)],
        "feat": [float(r["score"]) for r in rows],
        "Peptide": [r["written"] for r in rows],
        "Proteins": ["prot_of_" + r["plain"] for r in rows],
    })
    out = work / "out"
    out.mkdir()
    ds = make_dataset(df, work / "psms.pin", features=["feat"])
    assign_confidence([ds], max_workers=1, scores=[df["feat"].values.astype(float)], descs=[True], dest_dir=out,
                      prefixes=[None], decoys=True, proteins=prot, rng=rng_seed)
    obs = []
    for name, flag in (("targets.proteins", True), ("decoys.proteins", False)):
        p = out / name
        if not p.exists():
            return None, f"{name} was not written"
        res = read_result(p)
        need = ["mokapot protein group", "best peptide", "stripped sequence", "score", "q-value", "posterior_error_prob"]
        missing = [c for c in need if c not in res.columns]
        if missing:
            return None, f"{name}: columns {missing} missing ({list(res.columns)})"
        for g, b, s, sc, q, pep in zip(res["mokapot protein group"], res["best peptide"], res["stripped sequence"],
                                       res["score"], res["q-value"], res["posterior_error_prob"]):
            obs.append(dict(group=g, best=b, stripped=s, score=float(sc), target=flag, q=float(q), pep=float(pep),
                            file=name))
    return obs, None


def report(acc, signature, message, case, expected=None, observed=None):
    acc.count("viol:" + signature)
    if acc.extra["viol:" + signature] <= 2:
        acc.violation(Violation(signature, message, case, expected, observed))
    else:
        acc.n_violations += 1


def scratch():
    if "VERIF_SCRATCH" not in os.environ:
        import atexit
        import tempfile
        from mc.core import scratch_root

        root = tempfile.mkdtemp(prefix="mokaverif_C15replay_", dir=scratch_root())
        os.environ["VERIF_SCRATCH"] = root
        atexit.register(shutil.rmtree, root, ignore_errors=True)
    return worker_scratch()


def run_table(prot, model, case, acc, work):
    """One execution + oracle.  `case` is complete (replayable); prot/model are the cached database objects."""
    table = [tuple(x) for x in case["table"]]
    double = tuple(case["double"]) if case.get("double") else None
    rows = build_rows(table, case.get("notation", "plain"), double, NB_OF[case["mode"]])
    for j in range(case.get("unmapped", 0)):
        rows.append(dict(written=UNMAPPED[j], plain=UNMAPPED[j], score=90.0 - j, target=True, token=None))
    rows = order_rows(rows, case.get("rows", "token"))
    negative = bool(model.unmapped(rows))
    mode = case["mode"]
    sub = None
    try:
        try:
            if mode == "direct":
                obs, err = observe_direct(prot, rows, case.get("rng", 0), case.get("index"))
                if not err and "index" not in case and len(rows) >= 2:
                    # the same table with other row labels (what sorting / filtering a frame leaves behind)
                    for kind in ("rev", "gaps") if len(table) <= 1 else ("rev",) if len(table) <= 2 else ():
                        obs2, err2 = observe_direct(prot, rows, case.get("rng", 0), kind)
                        acc.count("direct_relabelled_index")
                        key = lambda o: (o["stripped"], o["score"], o["target"], str(o["group"]), str(o["best"]))
                        if err2 or sorted(map(key, obs2)) != sorted(map(key, obs)):
                            report(acc, "picked-depends-on-row-labels", f"direct: the result changes when the frame's "
                                   f"row labels are {kind} instead of 0..n-1: {err2 or ''}", dict(case, index=kind),
                                   expected=obs, observed=obs2)
                            break
            else:
                sub = work / "e2e"
                sub.mkdir()
                obs, err = observe_e2e(prot, rows, case.get("rng", 0), sub, case.get("chunk"))
        finally:
            if sub is not None:
                shutil.rmtree(sub, ignore_errors=True)
                from mc.datasets import set_chunks, DEFAULT_CHUNKS

                set_chunks(**DEFAULT_CHUNKS)
    except Exception as e:
        cls, desc = classify_exception(e)
        if negative:
            return "negative:" + cls, desc[:60]
        report(acc, "picked-raises:" + exc_signature(e),
               f"{mode}: raised {desc} although every peptide of the table maps to the database", case)
        return cls, "raised"
    if negative:
        return "negative:result", None
    if err:
        report(acc, "picked-output-malformed", f"{mode}: {err}", case)
        return "result", "malformed"
    problems, matched, exp = compare_entries(model, rows, obs)
    seen = set()
    for sig, msg in problems:
        if sig not in seen:
            seen.add(sig)
            report(acc, sig, f"{mode}: {msg}", case,
                   expected=[dict(pair=sorted(k), peptide=e["written"], score=e["score"], target=e["target"])
                             for k, e in exp.items()],
                   observed=obs)
    if mode == "e2e" and not problems:
        qref = ref_entry_qvalues(exp)
        acc.count("e2e_entries_with_qvalue_compared", len(matched))
        for k, o in matched.items():
            a, b = qref[k]
            if not abs(o["q"] - a / b) <= 1e-6:
                report(acc, "protein-qvalue", f"q-value of {o['group']!r} is {o['q']}, the C01 formula over the "
                       f"{len(exp)} entries gives {a}/{b}", case, expected={str(sorted(kk)): f"{x}/{y}" for kk, (x, y) in qref.items()},
                       observed=obs)
                break
        for o in obs:
            if not 0.0 <= o["pep"] <= 1.0:
                report(acc, "protein-pep-range", f"PEP {o['pep']} of {o['group']!r} outside [0,1]", case)
                break
    outcome = hash(tuple(sorted((o["group"], o["best"], o["score"], o["target"]) for o in obs)))
    return "result", outcome


def check_case(case, acc):
    """Stand-alone: rebuild the database in the recorded entry order and run the one table."""
    sc = scratch()
    work = sc.sub()
    SCHEME[0] = case.get("names", "T")
    try:
        targets = [tuple(t) for t in case["targets"]]
        core = dict(core_entries(targets))
        entries = [(n, core[n]) for n in case["entries"]] + ballast_entries(NB_OF[case["mode"]])
        prot = read_db(work / "db.fasta", entries)
        model = Model(prot_peps_of(entries), PREFIX)
        return run_table(prot, model, case, acc, work)
    finally:
        sc.clean(work)


# ---------------------------------------------------------------------------------------------------
# enumeration
# ---------------------------------------------------------------------------------------------------
def plan(quick):
    """Work items: (targets, orders, family, params, slice k, of n)."""
    items = []

    def add(targets, orders, family, nslices=1, **params):
        for k in range(nslices):
            items.append(dict(targets=[list(t) for t in targets], orders=orders, family=family, k=k, n=nslices, **params))

    for t in (1, 2, 3):
        for db in canonical_databases(t):
            nu = len({x for s in db for x in s})
            peps = core_peptides(db)
            count = lambda r: sum(1 for _ in tables(peps, r))
            orders = "all" if (t <= 2 or not quick) else FEW_ORDERS_6
            few = orders if t <= 2 else FEW_ORDERS_6[:3]
            # (a) direct call, plain notation: rmax for the first read_fasta result, rmax2 for the further ones
            if quick:
                rmax, rmax2 = (5 if nu <= 2 else 4 if (nu == 3 and t <= 2) else 3), 2
            else:
                rmax, rmax2 = (5 if (nu <= 3 and t <= 2) or nu <= 2 else 4), 3
            add(db, orders, "direct", nslices=max(1, count(rmax) // 400), rmax=rmax, rmax2=rmax2)
            # notation axis, row orders, one peptide in two notations: smaller tables
            if t <= 2 or not quick:
                n_rmax = 2 if (quick or t == 3 or nu == 4) else 3
                add(db, few, "direct-notation", nslices=max(1, count(n_rmax) * 14 // 400), rmax=n_rmax, rmax2=1)
            # (b) end to end
            if t <= 2 or not quick:
                if quick:
                    e_rmax = 2 if nu <= 2 else 1
                else:
                    e_rmax = 3 if (t <= 2 and nu <= 2) else 2 if t <= 2 else 1
                add(db, few, "e2e", nslices=max(1, count(e_rmax) * 3 // 25), rmax=e_rmax, rmax2=2,
                    chunks=[2] if quick else [1, 2, 3])
            # accessions spelled with letters of the decoy prefix ("cyc1", "ded1", ...)
            if t >= 2:
                add(db, few, "direct", rmax=2 if quick else 3, rmax2=1, names="prefix")
    return items


def worker(item):
    acc = Acc()
    sc = scratch()
    work = sc.sub()
    SCHEME[0] = item.get("names", "T")
    try:
        targets = [tuple(t) for t in item["targets"]]
        family = item["family"]
        nb = NB_OF["e2e" if family == "e2e" else "direct"]
        variants, norders = db_variants(targets, item["orders"], work / "db.fasta", nb)
        acc.count("entry_orders_read", norders)
        acc.count("distinct_read_fasta_results", len(variants))
        peps = core_peptides(targets)
        idx = 0
        for vi, (perm, entries, prot) in enumerate(variants):
            model = Model(prot_peps_of(entries), PREFIX)
            names = [n for n, _ in entries[: len(entries) - 2 * nb]]
            # secondary variants (same database, other member order in the group strings) get the tables with at
            # most 3 retained peptides; the first variant gets the full bound
            rmax = item["rmax"] if vi == 0 else min(item["rmax"], item["rmax2"])
            for table in tables(peps, rmax):
                if family == "direct":
                    cases = [dict(mode="direct", notation="plain", rows="token")]
                elif family == "direct-notation":
                    cases = [dict(mode="direct", notation=v, rows="token") for v in NOTATIONS[1:] + ["mixed"]]
                    cases += [dict(mode="direct", notation="plain", rows=o) for o in ("desc", "asc", "rot")]
                    for j, (tok, rank) in enumerate(table):  # the same peptide twice, in two notations, worse score
                        cases.append(dict(mode="direct", notation="plain", rows="token", double=[tok, len(table)]))
                        cases.append(dict(mode="direct", notation="flankKA", rows="asc", double=[tok, len(table)]))
                else:
                    cases = [dict(mode="e2e", notation="plain", rows="token")]
                    if len(table) <= 1 or vi == 0 and len(table) == 2 and table[0][1] == 0:
                        cases += [dict(mode="e2e", notation="mixed", rows="asc"), dict(mode="e2e", notation="all", rows="rot")]
                    if vi == 0:  # the peptide table streamed in chunks smaller than itself
                        cases += [dict(mode="e2e", notation="plain", rows="token", chunk=c) for c in item.get("chunks", ())]
                for extra in cases:
                    idx += 1
                    if idx % item["n"] != item["k"]:
                        continue
                    case = dict(targets=item["targets"], entries=names, table=[list(x) for x in table],
                                rng=idx % 3, **extra)
                    if item.get("names"):
                        case["names"] = item["names"]
                    rows = build_rows([tuple(x) for x in table], extra["notation"],
                                      tuple(extra["double"]) if extra.get("double") else None, nb)
                    cls, outcome = run_table(prot, model, case, acc, work)
                    acc.count("runs:" + family)
                    acc.case(key=hash(json.dumps(case, sort_keys=True)), nontrivial=is_nontrivial(model, rows, nb),
                             outcome=outcome, cls=cls,
                             sample=case if acc.evaluations % 1499 == 3 else None)
        # tiny negative family: unmapped peptides (outside the property; only the way it ends is recorded)
        if family == "direct-notation" and item["k"] == 0 and len(targets) == 1:
            perm, entries, prot = variants[0]
            model = Model(prot_peps_of(entries), PREFIX)
            names = [n for n, _ in entries[: len(entries) - 2 * nb]]
            for nun in (1, 3):
                table = [[p, j] for j, p in enumerate(peps[:2])]
                case = dict(targets=item["targets"], entries=names, table=table, rng=0, mode="direct", notation="plain",
                            rows="token", unmapped=nun)
                cls, outcome = run_table(prot, model, case, acc, work)
                acc.count("runs:negative")
                acc.case(key=hash(json.dumps(case, sort_keys=True)), nontrivial=False, outcome=None, cls=cls)
    finally:
        sc.clean(work)
    return acc


def run(ctx):
    items = plan(ctx.quick)
    # end-to-end items first (a run is ~15x a direct call); within a family simplest databases first, so that the
    # violations kept (the accumulator keeps a bounded number) include the smallest ones
    items.sort(key=lambda it: (it["family"] != "e2e", len(it["targets"]), sum(map(len, it["targets"]))))
    ctx.pmap(worker, items)
    ctx.exhaustive = True
    dbs = {t: len(canonical_databases(t)) for t in (1, 2, 3)}
    ctx.info["bound"] = {
        "target_proteins_max": 3, "peptides_max": 4, "ballast_pairs": NB_OF, "canonical_databases": dbs,
        "entry_orders": "all (2t)! for t<=2; t=3: " + ("15 fixed orders" if ctx.quick else "all 720"),
        "retained_peptides_max": ("5 (<=2 peptides in the database), 4 (3 peptides, <=2 proteins), else 3; 2 for "
                                  "further read_fasta results of the same database") if ctx.quick
        else "5 (<=3 peptides and <=2 proteins, or <=2 peptides), else 4; 3 for further read_fasta results",
        "notation_axis": "<=2 proteins, <=2 retained" if ctx.quick else "<=3 retained for <=2 proteins over <=3 peptides, else <=2",
        "end_to_end": "<=2 proteins, <=2 retained (1 with >=3 peptides)" if ctx.quick
        else "<=3 retained (<=2 proteins over <=2 peptides), 2 (<=2 proteins), 1 (3 proteins)",
        "work_items": len(items),
    }
    ctx.info["traces_validated_against_impl"] = ctx.acc.evaluations


def replay(case):
    acc = Acc()
    check_case(case, acc)
    return acc.violations
