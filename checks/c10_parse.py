"""C10 - every well-formed PIN / Parquet PSM table parses into a faithful dataset (E1 + E2).

Family A (always complete): feature count 1..60 x identifier set {scan; +ExpMass; +ret_time; +filename} x column-scan
chunk {2,3,5,7,19} x {text, Parquet} x {no missing value, missing values in the first and the last feature column}.
Family B: deviations (<= 2 quick, <= 3 thorough) from a default table over column order, casing of the reserved names,
optional columns, label encoding, placement/spelling of missing values, row count 1..12, row-scan chunk, workers (real
joblib threads), file format / Parquet row groups, identifier set, column-scan chunk, feature count, entry point, and
the negative cases (a required column missing; a label 2 / -2 / 0.5).
Family C (E2): all schedules of the read_percolator pool with <= 1 preemption for a few tables; every schedule must
give the sequential outcome.
Oracle: built by the generator, which knows what it wrote.
"""

from __future__ import annotations

import itertools
import shutil
import warnings
from pathlib import Path

import numpy as np

from mc.core import Acc, Violation, worker_scratch, exc_signature, classify_exception
from mc.viocap import report
from mc import sched

PROPERTY = "C10"
SIZE_MODULES = ['mokapot.parsers.pin', 'mokapot.parsers.helpers', 'mokapot.utils', 'mokapot.dataset']  # see mc.runner._sized_passes
LEVEL = "exploration"
RULE = (
    "case = table specification (feature count, identifier set, column order, casing, optional columns, label "
    "encoding, missing-value placement, rows, format) + parser configuration (column/row scan chunk, workers, entry "
    "point); family A enumerates feature count x identifier set x column chunk x format x missing values completely, "
    "family B every combination of <= k deviations from the default table, family C every schedule of the parser's "
    "thread pool within the preemption bound. Non-trivial iff the features span more than one column chunk, or a "
    "column holds a missing value, or the table deviates from the default layout, or it is a negative case; distinct "
    "by the full specification (+ schedule)"
)
ASSUMPTIONS = [
    "well-formed = one header line, every row with the header's number of fields, one protein per row (ragged "
    "protein lists are C19's topic), no DefaultDirection line, identifier columns without missing values, at least "
    "one feature column, feature names that differ from the reserved names also case-insensitively",
    "a column named 'charge' is accepted either as a feature or as a reserved column (the documentation keeps it a "
    "feature unless several charge columns exist); all other reserved names must not be features",
    "missing value = empty field, 'NaN' or 'NA' in text; null or floating NaN in Parquet",
    "boolean labels are generated for Parquet only",
    "negative cases: an explicit RuntimeError/ValueError raised by mokapot counts as 'rejected with an error'; any "
    "other exception type is classified neg_crash and reported as a note, not as a violation; no exception is a "
    "violation",
    "spectra_dataframe is compared by position and by index (index = file row number, which downstream code uses to "
    "address rows)",
    "E2: scheduling points are every line of drop_missing_values_and_fill_spectra_dataframe and every call/return of "
    "other mokapot functions; third-party code runs atomically (DESIGN section 2)",
]

CANON = {"specid": "SpecId", "label": "Label", "scannr": "ScanNr", "expmass": "ExpMass", "calcmass": "CalcMass",
         "ret_time": "ret_time", "filename": "filename", "peptide": "Peptide", "proteins": "Proteins",
         "modifiedpeptide": "ModifiedPeptide", "precursor": "Precursor", "peptidegroup": "PeptideGroup",
         "charge": "Charge"}
WEIRD = {"specid": "sPeCid", "label": "LaBel", "scannr": "scanNR", "expmass": "eXpMass", "calcmass": "cAlcMass",
         "ret_time": "Ret_Time", "filename": "FileName", "peptide": "pepTide", "proteins": "pRoteins",
         "modifiedpeptide": "modifiedPeptide", "precursor": "PreCursor", "peptidegroup": "peptideGroup",
         "charge": "cHarge"}
REQUIRED = ["specid", "label", "scannr", "peptide", "proteins"]
LEVELS = ["modifiedpeptide", "precursor", "peptidegroup"]
FEATURE_NAMES = ["lnrSp", "deltLCn", "deltCn", "Xcorr", "Sp", "IonFrac", "Mass", "PepLen", "enzN", "enzC", "enzInt",
                 "lnNumSP", "dM", "absdM", "RefactoredXcorr", "NegLog10PValue", "NegLog10ResEvPValue"]

DEFAULT = dict(nfeat=3, ids=2, colchunk=19, rowchunk=2000000, order="pin", casing="mixed", optional="none",
               label="pm1", nan="none", nrows=6, workers=1, fmt="pin", entry="read_pin", neg="none")

DEVIATIONS = (
    [("order", v) for v in ("first", "last", "inter", "rev")]
    + [("casing", v) for v in ("lower", "upper", "weird")]
    + [("optional", v) for v in ("calcmass", "levels", "charge", "all")]
    + [("label", v) for v in ("01", "bool")]
    + [("nan", v) for v in ("first", "mid", "last", "two", "allrows", "first:NaN", "last:NA")]
    + [("nrows", v) for v in (1, 2, 3, 4, 5, 7, 8, 9, 10, 11, 12)]
    + [("rowchunk", v) for v in (1, 3)]
    + [("workers", 3)]
    + [("fmt", v) for v in ("tab", "parquet", "parquet:rg2")]
    + [("ids", v) for v in (1, 3, 4)]
    + [("colchunk", v) for v in (2, 3, 5, 7)]
    + [("nfeat", v) for v in (1, 20)]
    + [("entry", "read_percolator")]
    + [("neg", v) for v in ("missing:specid", "missing:label", "missing:scannr", "missing:peptide",
                            "missing:proteins", "label:2", "label:-2", "label:0.5")]
)


def feature_name(j):
    return FEATURE_NAMES[j] if j < len(FEATURE_NAMES) else f"Ft{j + 1}"


def cased(key, casing):
    if casing == "mixed":
        return CANON[key]
    if casing == "lower":
        return key
    if casing == "upper":
        return key.upper()
    return WEIRD[key]


def full(spec):
    s = dict(DEFAULT)
    s.update(spec)
    if s["label"] == "bool" and not s["fmt"].startswith("parquet"):
        s["fmt"] = "parquet"
    return s


def valid(spec):
    s = dict(DEFAULT)
    s.update(spec)
    if s["label"] == "bool" and "fmt" in spec and not spec["fmt"].startswith("parquet"):
        return False
    if s["label"] == "bool" and s["neg"].startswith("label:"):
        return False
    return True


def _scratch():
    """Per-case scratch directory (under the run's scratch root; a private temp dir for stand-alone replays)."""
    import os
    import tempfile

    if os.environ.get("VERIF_SCRATCH"):
        return worker_scratch().sub()
    return Path(tempfile.mkdtemp(prefix="mokaverif_replay_"))


# ---------------------------------------------------------------------------------------------
# generator: table + expectation
# ---------------------------------------------------------------------------------------------
def build(spec):
    """Returns (header, columns: name -> list of python values (None = missing), kinds, expectation)."""
    s = full(spec)
    n, k, casing = s["nrows"], s["nfeat"], s["casing"]
    opt = {"none": (), "calcmass": ("calcmass",), "levels": ("levels",), "charge": ("charge",),
           "all": ("calcmass", "levels", "charge")}[s["optional"]]
    present = ["specid", "label", "scannr"]
    if s["ids"] >= 2:
        present.append("expmass")
    if "calcmass" in opt:
        present.append("calcmass")
    if s["ids"] >= 3:
        present.append("ret_time")
    if s["ids"] >= 4:
        present.append("filename")
    if "charge" in opt:
        present.append("charge")
    tail = ["peptide"] + (LEVELS if "levels" in opt else []) + ["proteins"]
    missing_col = s["neg"][8:] if s["neg"].startswith("missing:") else None
    idcols = [c for c in present if c != missing_col]
    tail = [c for c in tail if c != missing_col]
    feats = [feature_name(j) for j in range(k)]
    R = lambda c: ("R", c)  # noqa: E731
    F = lambda f: ("F", f)  # noqa: E731
    pin = [R(c) for c in idcols] + [F(f) for f in feats] + [R(c) for c in tail]
    if s["order"] == "pin":
        layout = pin
    elif s["order"] == "first":
        layout = [R(c) for c in idcols + tail] + [F(f) for f in feats]
    elif s["order"] == "last":
        layout = [F(f) for f in feats] + [R(c) for c in idcols + tail]
    elif s["order"] == "rev":
        layout = pin[::-1]
    else:  # interleaved
        rs, fs = [R(c) for c in idcols + tail], [F(f) for f in feats]
        layout = []
        for i in range(max(len(rs), len(fs))):
            if i < len(rs):
                layout.append(rs[i])
            if i < len(fs):
                layout.append(fs[i])
    is_target = [r % 3 != 1 for r in range(n)]
    if s["label"] == "pm1":
        labels = [1 if t else -1 for t in is_target]
    elif s["label"] == "01":
        labels = [1 if t else 0 for t in is_target]
    else:
        labels = [bool(t) for t in is_target]
    if s["neg"].startswith("label:"):
        bad = s["neg"][6:]
        labels[n // 2] = float(bad) if "." in bad else int(bad)
    val = {
        "specid": [f"psm_{r}" for r in range(n)],
        "label": labels,
        "scannr": [1000 + r // 2 for r in range(n)],
        "expmass": [500.25 + 10.5 * r for r in range(n)],
        "calcmass": [500.5 + 10.5 * r for r in range(n)],
        "ret_time": [12.5 + 0.75 * r for r in range(n)],
        "filename": [f"run{r % 2}.mzML" for r in range(n)],
        "charge": [2 + r % 2 for r in range(n)],
        "peptide": [f"PEPT{'ACDEFGHIKL'[r % 10]}IDE{r}K" for r in range(n)],
        "modifiedpeptide": [f"PEPT{'ACDEFGHIKL'[r % 10]}IDE{r}K[+16]" for r in range(n)],
        "precursor": [f"PEPT{'ACDEFGHIKL'[r % 10]}IDE{r}K[+16]/{2 + r % 2}" for r in range(n)],
        "peptidegroup": [f"G{r // 2}" for r in range(n)],
        "proteins": [f"sp|P{r:05d}|PROT" for r in range(n)],
    }
    # feature values: every third column integer-valued
    fval = {}
    for j, f in enumerate(feats):
        if j % 3 == 0:
            fval[f] = [int((r * 7 + j * 3) % 11) for r in range(n)]
        else:
            fval[f] = [round(((r * 5 + j * 11) % 13) / 4 + j * 0.01, 3) for r in range(n)]
    # missing values
    nan, token = (s["nan"].split(":") + [""])[:2]
    cells = set()
    if nan == "first":
        cells = {(0, 0)}
    elif nan == "mid":
        cells = {(k // 2, n // 2)}
    elif nan == "last":
        cells = {(k - 1, n - 1)}
    elif nan == "two":
        cells = {(0, 0), (k - 1, n - 1)}
    elif nan == "firstlast":
        cells = {(0, n - 1), (k - 1, 0)}
    elif nan == "allrows":
        cells = {(k // 2, r) for r in range(n)}
    nan_cols = set()
    for (j, r) in cells:
        fval[feats[j]][r] = None
        nan_cols.add(feats[j])
    header, columns, kinds = [], {}, {}
    for kind, c in layout:
        name = cased(c, casing) if kind == "R" else c
        header.append(name)
        columns[name] = val[c] if kind == "R" else fval[c]
        kinds[name] = (kind, c)
    name_of = {c: cased(c, casing) for kind, c in layout if kind == "R"}
    expect = {
        "columns": header,
        "spectrum": [name_of[c] for c in ("filename", "scannr", "ret_time", "expmass") if c in name_of],
        "features": [h for h in header if kinds[h][0] == "F" and h not in nan_cols],
        "charge": name_of.get("charge"),
        "reserved": [name_of[c] for c in name_of if c != "charge"],
        "roles": {"target_column": name_of.get("label"), "peptide_column": name_of.get("peptide"),
                  "protein_column": name_of.get("proteins"), "specId_column": name_of.get("specid"),
                  "scan_column": name_of.get("scannr"), "filename_column": name_of.get("filename"),
                  "calcmass_column": name_of.get("calcmass"), "expmass_column": name_of.get("expmass"),
                  "rt_column": name_of.get("ret_time")},
        "targets": [bool(lab == 1) for lab in labels],
        "nan_cols": sorted(nan_cols),
        "token": token,
    }
    expect["rows"] = [tuple(columns[c][r] for c in expect["spectrum"]) for r in range(n)]
    return header, columns, kinds, expect


def _txt(v, token):
    if v is None:
        return token
    if isinstance(v, bool):
        return "True" if v else "False"
    if isinstance(v, float):
        return repr(v)
    return str(v)


def write(spec, path_dir):
    import pyarrow as pa
    import pyarrow.parquet as pq

    s = full(spec)
    header, columns, kinds, expect = build(spec)
    n = s["nrows"]
    token = expect["token"]
    if s["fmt"].startswith("parquet"):
        path = Path(path_dir) / "table.parquet"
        arrays = []
        for h in header:
            vals = columns[h]
            nonnull = [v for v in vals if v is not None]
            if all(isinstance(v, bool) for v in nonnull) and nonnull:
                typ = pa.bool_()
            elif all(isinstance(v, int) for v in nonnull) and nonnull:
                typ = pa.int64()
            elif all(isinstance(v, (int, float)) for v in nonnull):
                typ = pa.float64()
            else:
                typ = pa.string()
            if token == "NaN" and any(v is None for v in vals):
                typ = pa.float64()
                vals = [float("nan") if v is None else float(v) for v in vals]
                arrays.append(pa.array(vals, type=typ, from_pandas=False))
            else:
                arrays.append(pa.array(vals, type=typ))
        rg = 2 if s["fmt"].endswith("rg2") else max(1, n)
        pq.write_table(pa.Table.from_arrays(arrays, names=header), path, row_group_size=rg)
    else:
        path = Path(path_dir) / ("table.pin" if s["fmt"] == "pin" else "table.tab")
        lines = ["\t".join(header)]
        for r in range(n):
            lines.append("\t".join(_txt(columns[h][r], token) for h in header))
        path.write_text("\n".join(lines) + "\n")
    return path, expect


# ---------------------------------------------------------------------------------------------
# running the parser, observing the dataset
# ---------------------------------------------------------------------------------------------
def _py(v):
    if isinstance(v, np.generic):
        v = v.item()
    return v


def observe(ds):
    sdf = ds.spectra_dataframe
    spec = list(ds.spectrum_columns)
    tcol = ds.target_column
    obs = {
        "columns": list(ds.columns),
        "spectrum": spec,
        "features": list(ds.feature_columns),
        "metadata": list(ds.metadata_columns),
        "roles": {r: getattr(ds, r) for r in ("target_column", "peptide_column", "protein_column", "specId_column",
                                                "scan_column", "filename_column", "calcmass_column",
                                                "expmass_column", "rt_column")},
        "sdf_columns": [str(c) for c in sdf.columns],
        "index": [_py(i) for i in sdf.index],
        "nrows": int(len(sdf)),
    }
    have = [c for c in spec if c in sdf.columns]
    obs["rows"] = [tuple(_py(v) for v in row) for row in sdf[have].itertuples(index=False, name=None)]
    obs["rows_columns"] = have
    if tcol in sdf.columns:
        obs["targets"] = [_py(v) for v in sdf[tcol]]
        obs["target_dtype"] = str(sdf[tcol].dtype)
    else:
        obs["targets"] = None
        obs["target_dtype"] = None
    return obs


def parse(path, s):
    import mokapot
    from mc.datasets import set_chunks

    set_chunks(CHUNK_SIZE_COLUMNS_FOR_DROP_COLUMNS=s["colchunk"], CHUNK_SIZE_ROWS_FOR_DROP_COLUMNS=s["rowchunk"])
    with warnings.catch_warnings():
        warnings.simplefilter("ignore")
        if s["entry"] == "read_pin":
            out = mokapot.read_pin(path, max_workers=s["workers"])
            if not isinstance(out, list) or len(out) != 1:
                raise AssertionError(f"read_pin returned {type(out).__name__} of length "
                                     f"{len(out) if hasattr(out, '__len__') else '?'} for one file")
            return out[0]
        return mokapot.read_percolator(path, max_workers=s["workers"])


def compare(expect, obs, n):
    """List of (signature, message)."""
    bad = []
    if obs["columns"] != expect["columns"]:
        bad.append(("columns-differ", f"dataset.columns {obs['columns']} != file header {expect['columns']}"))
    if obs["spectrum"] != expect["spectrum"]:
        bad.append(("spectrum-columns-differ", f"spectrum_columns {obs['spectrum']}, expected [filename, scan, "
                    f"ret_time, expmass] restricted to the present ones = {expect['spectrum']}"))
    ch = expect["charge"]
    got_f = [f for f in obs["features"] if f != ch]
    want_f = [f for f in expect["features"] if f != ch]
    if got_f != want_f:
        kept_nan = [f for f in got_f if f in expect["nan_cols"]]
        reserved = [f for f in got_f if f in expect["reserved"]]
        lost = [f for f in want_f if f not in got_f]
        unknown = [f for f in got_f if f not in expect["columns"]]
        if kept_nan:
            bad.append(("features-differ:column-with-missing-value-kept", f"feature_columns keep {kept_nan}, which "
                        f"contain a missing value"))
        if reserved:
            bad.append(("features-differ:reserved-column-is-feature", f"reserved column(s) {reserved} listed as "
                        f"features"))
        if lost:
            bad.append(("features-differ:feature-without-missing-value-dropped", f"{lost} have no missing value but "
                        f"are not in feature_columns {obs['features']}"))
        if unknown:
            bad.append(("features-differ:not-a-file-column", f"feature_columns name {unknown}, which are not columns "
                        f"of the file"))
        if not (kept_nan or reserved or lost or unknown):
            bad.append(("features-differ:order", f"feature_columns {obs['features']} are not in file order "
                        f"{expect['features']}"))
    miss = [c for c in expect["reserved"] if c not in obs["metadata"]]
    if miss:
        bad.append(("metadata-misses-reserved-column", f"metadata_columns {obs['metadata']} lack {miss}"))
    mf = [c for c in obs["metadata"] if c in want_f]
    if mf:
        bad.append(("metadata-holds-feature", f"metadata_columns list the feature(s) {mf}"))
    for role, want in expect["roles"].items():
        if obs["roles"].get(role) != want:
            bad.append((f"role-column-wrong:{role}", f"{role} is {obs['roles'].get(role)!r}, the file's column is "
                        f"{want!r}"))
    # rows
    if obs["nrows"] < n:
        bad.append(("row-dropped", f"spectra_dataframe has {obs['nrows']} rows for {n} input rows"))
    elif obs["nrows"] > n:
        bad.append(("row-added", f"spectra_dataframe has {obs['nrows']} rows for {n} input rows"))
    if set(obs["sdf_columns"]) != set(expect["spectrum"]) | {expect["roles"]["target_column"]}:
        bad.append(("spectra-frame-columns-differ", f"spectra_dataframe columns {obs['sdf_columns']}, expected the "
                    f"spectrum columns and the label column"))
    if obs["nrows"] == n and obs["rows_columns"] == expect["spectrum"]:
        if obs["rows"] != expect["rows"]:
            if sorted(map(repr, obs["rows"])) == sorted(map(repr, expect["rows"])):
                bad.append(("rows-not-in-file-order", f"spectra_dataframe rows are a permutation of the file rows: "
                            f"{obs['rows'][:4]}... vs {expect['rows'][:4]}..."))
            else:
                bad.append(("spectrum-values-differ", f"spectra_dataframe rows {obs['rows'][:4]}... differ from the "
                            f"file's {expect['rows'][:4]}..."))
        if obs["targets"] is not None:
            got_t = [bool(t) for t in obs["targets"]]
            if got_t != expect["targets"]:
                bad.append(("target-flags-differ", f"targets {got_t}, the rows labelled 1/True are "
                            f"{expect['targets']}"))
            # dtype of the flag column and the index labels of the spectra frame are representation details, not part
            # of the statement (rows, order and flags are): noted, never flagged
            if obs["target_dtype"] != "bool":
                NOTES.add("target column of the spectra frame is not of dtype bool")
        if obs["index"] != list(range(n)):
            NOTES.add("spectra_dataframe index is not 0..n-1")
    return bad


NOTES = set()


def complexity(spec):
    s = full(spec)
    return 100000 * len([k for k in spec if k != "family"]) + 100 * s["nfeat"] + s["nrows"] + 10 * s["ids"]


def nontrivial(spec):
    s = full(spec)
    layout_dev = [k for k, v in spec.items() if k in DEFAULT and DEFAULT[k] != v and k not in ("colchunk", "nfeat", "ids")]
    multi_chunk = (s["nfeat"] + s["ids"] + 1) > s["colchunk"]
    return bool(multi_chunk or layout_dev)


def check_case(spec, acc):
    """One parse. Returns (class, outcome)."""
    s = full(spec)
    from mc.datasets import set_chunks, DEFAULT_CHUNKS

    def viol(sig, msg, expected=None, observed=None):
        report(acc, Violation(sig, f"{s['entry']}({s['fmt']}, {s['nfeat']} features, {s['ids']} spectrum column(s), "
                              f"{s['nrows']} rows, column chunk {s['colchunk']}, row chunk {s['rowchunk']}, workers "
                              f"{s['workers']}; deviations {dict((k, v) for k, v in spec.items() if k != 'family')}): "
                              f"{msg}", spec, expected, observed), size=complexity(spec))

    work = _scratch()
    try:
        path, expect = write(spec, work)
        neg = s["neg"] != "none"
        try:
            ds = parse(path, s)
        except BaseException as e:
            cls, desc = classify_exception(e)
            if neg:
                if cls == "explicit_error":
                    return "neg_rejected", "rejected:" + type(e).__name__
                acc.notes.add(f"negative case {s['neg']} ends in a crash, not an explicit error: {exc_signature(e)}")
                acc.count("neg_crash:" + s["neg"])
                return "neg_crash", "crash:" + exc_signature(e)
            viol(f"{s['entry']}-raises:" + exc_signature(e), f"raised {desc}")
            return "raised", "raised:" + exc_signature(e)
        finally:
            set_chunks(**{k: DEFAULT_CHUNKS[k] for k in ("CHUNK_SIZE_COLUMNS_FOR_DROP_COLUMNS",
                                                         "CHUNK_SIZE_ROWS_FOR_DROP_COLUMNS")})
        if neg:
            what = "missing-required-column-accepted:" + s["neg"][8:] if s["neg"].startswith("missing:") else \
                "bad-label-accepted:" + {"2": "2", "-2": "minus2", "0.5": "one-half"}[s["neg"][6:]]
            became = ""
            if s["neg"].startswith("label:"):
                try:
                    became = f"; the row labelled {s['neg'][6:]} became target={observe(ds)['targets'][s['nrows'] // 2]!r}"
                except Exception:
                    became = ""
            viol(what, f"negative case {s['neg']} was parsed without an error{became}")
            return "neg_accepted", "accepted"
        try:
            obs = observe(ds)
        except Exception as e:
            viol("returned-dataset-unreadable:" + type(e).__name__, f"the returned dataset cannot be inspected: "
                 f"{type(e).__name__}: {e}")
            return "result_wrong", "unreadable"
        bad = compare(expect, obs, s["nrows"])
        seen = set()
        for sig, msg in bad:
            if sig not in seen:
                seen.add(sig)
                viol(sig, msg)
        if expect["charge"] and expect["charge"] in obs["features"]:
            acc.count("charge_column_kept_as_feature")
        return ("result" if not bad else "result_wrong"), (obs["features"], obs["spectrum"], obs["rows"], obs["targets"])
    finally:
        shutil.rmtree(work, ignore_errors=True)


def check_history(spec, acc):
    """Family D: the SAME path is written and parsed several times in one process with different tables (a re-export
    of the file): each parse must reflect the file as it is now."""
    work = _scratch()
    from mc.datasets import set_chunks, DEFAULT_CHUNKS

    try:
        last = None
        for step, sub in enumerate(spec["history"]):
            s = full(sub)
            path, expect = write(sub, work)
            try:
                ds = parse(path, s)
                obs = observe(ds)
            except BaseException as e:
                report(acc, Violation("reparse-raises:" + exc_signature(e), f"parse {step + 1} of a rewritten file raised "
                                      f"{classify_exception(e)[1]}", spec), size=10 + step)
                return "raised", None
            finally:
                set_chunks(**{k: DEFAULT_CHUNKS[k] for k in ("CHUNK_SIZE_COLUMNS_FOR_DROP_COLUMNS",
                                                             "CHUNK_SIZE_ROWS_FOR_DROP_COLUMNS")})
            bad = compare(expect, obs, s["nrows"])
            for sig, msg in bad[:2]:
                report(acc, Violation("stale-after-rewrite:" + sig, f"parse {step + 1} of the same path after the file was "
                                      f"rewritten with another table: {msg}", spec), size=10 + step)
            last = (obs["features"], obs["spectrum"], obs["rows"])
            if bad:
                return "result_wrong", last
        return "result", last
    finally:
        shutil.rmtree(work, ignore_errors=True)


def worker(item):
    acc = Acc()
    acc.notes = NOTES  # representation details observed (see compare)
    for spec in item:
        if "history" in spec:
            cls, outcome = check_history(spec, acc)
            acc.case(key=repr(spec), nontrivial=True, outcome=repr(outcome), cls=cls, sample=spec if acc.evaluations % 31 == 3 else None)
            acc.count("family_D")
            continue
        cls, outcome = check_case(spec, acc)
        acc.case(key=tuple(sorted((k, str(v)) for k, v in spec.items())), nontrivial=nontrivial(spec),
                 outcome=repr(outcome), cls=cls,
                 sample=spec if (acc.evaluations % 53 == 7) else None)
        acc.count("family_" + spec.get("family", "B"))
    return acc


# ---------------------------------------------------------------------------------------------
# E2: schedules of the read_percolator pool
# ---------------------------------------------------------------------------------------------
E2_QUICK = [
    {"family": "C", "nfeat": 4, "colchunk": 2, "rowchunk": 3, "nan": "two", "workers": 3},
    {"family": "C", "nfeat": 3, "colchunk": 2, "ids": 4, "nan": "mid", "workers": 2, "fmt": "parquet",
     "entry": "read_percolator"},
]
E2_THOROUGH = E2_QUICK + [
    {"family": "C", "nfeat": 5, "colchunk": 2, "rowchunk": 4, "ids": 4, "nan": "mid", "workers": 3,
     "fmt": "parquet", "entry": "read_percolator"},
    {"family": "C", "nfeat": 7, "colchunk": 3, "rowchunk": 3, "nan": "two", "workers": 3},
    {"family": "C", "nfeat": 9, "colchunk": 3, "rowchunk": 2, "ids": 3, "nan": "firstlast", "workers": 2,
     "optional": "levels", "casing": "weird"},
    {"family": "C", "nfeat": 4, "colchunk": 2, "rowchunk": 1, "nrows": 3, "ids": 1, "nan": "allrows", "workers": 3,
     "label": "01", "order": "inter"},
]


def _e2_setup(spec, work):
    s = full(spec)
    path, expect = write(spec, work)

    def body(workers=None):
        return observe(parse(path, dict(s, workers=workers or s["workers"])))

    return s, expect, body


def _e2_on_exec(acc, spec, s, bound, ref_repr, ref):
    def on_exec(exe, out, exc):
        acc.count("e2_executions")
        acc.count("e2_transitions", len(exe.choices))
        acc.count("e2_preemptions", exe.preemptions)
        if exe.max_inflight >= 2:
            acc.count("e2_executions_with_2plus_inflight")
        got = repr(sorted(out.items())) if exc is None else "EXC:" + exc_signature(exc)
        acc.case(key=("e2", repr(spec), tuple(exe.choices)), nontrivial=exe.max_inflight >= 2, outcome=got,
                 cls="schedule")
        if got != ref_repr:
            what = "schedule-changes-parse-result" if exc is None else "schedule-crash:" + exc_signature(exc)
            detail = ""
            if exc is None:
                diff = [k for k in ref if ref[k] != out.get(k)]
                detail = f"; differing parts {diff}: " + "; ".join(f"{k}={out.get(k)!r} vs {ref[k]!r}"
                                                                   for k in diff)[:400]
            report(acc, Violation(what, f"read_percolator pool, {exe.focus_tasks} tasks, {s['workers']} workers: "
                                  f"schedule {exe.choices} ({exe.preemptions} preemption(s)) gives a dataset "
                                  f"different from the sequential parse{detail}" + (f": {exc}" if exc else ""),
                                  {"e2": spec, "schedule": list(exe.choices), "bound": bound}),
                   size=len(exe.choices))

    return on_exec


def _reset_chunks():
    from mc.datasets import set_chunks, DEFAULT_CHUNKS

    set_chunks(**{k: DEFAULT_CHUNKS[k] for k in ("CHUNK_SIZE_COLUMNS_FOR_DROP_COLUMNS",
                                                 "CHUNK_SIZE_ROWS_FOR_DROP_COLUMNS")})


def e2_plan(ctx, spec, bound):
    """Reference (sequential) parse, default schedule and free-running joblib in the parent; the alternatives of the
    default schedule become work items (one subtree each)."""
    acc = ctx.acc
    work = _scratch()
    try:
        s, expect, body = _e2_setup(spec, work)
        try:
            ref = body(workers=1)
        except BaseException as e:
            # the sequential parse itself fails: reported by families A/B; nothing to compare schedules with
            acc.count("e2_skipped_sequential_parse_raises")
            acc.case(key=("e2", repr(spec), "ref"), nontrivial=False, outcome="raised:" + exc_signature(e),
                     cls="e2_reference_raised")
            return [], None
        if compare(expect, ref, s["nrows"]):
            acc.count("e2_reference_already_wrong")
        ref_repr = repr(sorted(ref.items()))
        on_exec = _e2_on_exec(acc, spec, s, bound, ref_repr, ref)
        exe, out, exc = sched.execute(body, [], 0, "entry")
        on_exec(exe, out, exc)
        info = {"spec": spec, "tasks": exe.focus_tasks, "points_default_schedule": len(exe.choices),
                "max_inflight": exe.max_inflight}
        if not exe.focus_seen or exe.focus_tasks < 2:
            acc.notes.add(f"E2: the parser's pool was not seen or had < 2 tasks for {spec}; no schedule coverage")
            return [], info
        kids = sched.children(exe, bound)
        # conformance of the pool model: free-running joblib must land on the same outcome
        for w in (2, 4):
            try:
                got = repr(sorted(body(workers=w).items()))
            except BaseException as e:
                got = "EXC:" + exc_signature(e)
            acc.count("joblib_free_runs")
            if got != ref_repr:
                report(acc, Violation("joblib-free-run-differs", f"real joblib with {w} workers gives a dataset "
                                      f"different from the sequential parse", {"e2": spec, "free_workers": w}))
        g = 8
        return [(spec, bound, kids[i:i + g], ref_repr, ref) for i in range(0, len(kids), g)], info
    finally:
        _reset_chunks()
        shutil.rmtree(work, ignore_errors=True)


def e2_worker(item):
    spec, bound, prefixes, ref_repr, ref = item
    acc = Acc()
    work = _scratch()
    try:
        s, expect, body = _e2_setup(spec, work)
        on_exec = _e2_on_exec(acc, spec, s, bound, ref_repr, ref)
        for prefix in prefixes:
            n, capped = sched.explore(body, 0, bound, on_exec, granularity="entry", root_prefix=prefix, cap=4000)
            if capped:
                acc.caps.append(f"E2 {spec} subtree {prefix} capped at {n} executions")
    finally:
        _reset_chunks()
        shutil.rmtree(work, ignore_errors=True)
    return acc


# ---------------------------------------------------------------------------------------------
def family_a():
    out = []
    for nfeat in range(1, 61):
        for ids in (1, 2, 3, 4):
            for cc in (2, 3, 5, 7, 19):
                for fmt in ("pin", "parquet"):
                    for nan in ("none", "firstlast"):
                        spec = {"family": "A", "nfeat": nfeat, "ids": ids, "colchunk": cc}
                        if fmt != "pin":
                            spec["fmt"] = fmt
                        if nan != "none":
                            spec["nan"] = nan
                        out.append(spec)
    return out


def family_d():
    """Ordered pairs / triples of tables with different column sets written to one path."""
    base = [{}, {"nfeat": 5}, {"nfeat": 1}, {"optional": "levels"}, {"ids": 4}, {"order": "rev", "nfeat": 4}, {"nan": "first", "nfeat": 5}]
    out = []
    for fmt in ("pin", "parquet"):
        for a, b in itertools.permutations(base, 2):
            out.append({"family": "D", "history": [dict(a, fmt=fmt) if fmt != "pin" else a, dict(b, fmt=fmt) if fmt != "pin" else b]})
    for a, b, c in itertools.permutations(base[:4], 3):
        out.append({"family": "D", "history": [a, b, c]})
    return out


def family_e():
    """Several row-scan chunks x missing values in the column slice that also carries the identifier columns."""
    out = []
    for nfeat in range(1, 9):
        for cc in (2, 3, 5, 7):
            for rc in (1, 3):
                for nan in ("last", "firstlast", "two", "allrows", "first"):
                    for ids in (2, 4):
                        for fmt in ("pin", "parquet"):
                            spec = {"family": "E", "nfeat": nfeat, "colchunk": cc, "rowchunk": rc, "nan": nan, "ids": ids}
                            if fmt != "pin":
                                spec["fmt"] = fmt
                            if valid(spec):
                                out.append(spec)
    return out


def family_b(maxdev):
    out = [{}]
    for k in range(1, maxdev + 1):
        for combo in itertools.combinations(DEVIATIONS, k):
            axes = [c[0] for c in combo]
            if len(set(axes)) < len(axes):
                continue
            spec = dict(combo)
            if valid(spec):
                out.append(spec)
    return out


def run(ctx):
    maxdev = 2 if ctx.quick else 3
    a = family_a()
    b = family_b(maxdev)
    d, e = family_d(), family_e()
    cases = a + b + d + e
    cases = ctx.rotate(cases)
    k = 40
    items = [cases[i:i + k] for i in range(0, len(cases), k)]
    save, ctx.seed = ctx.seed, 0  # already rotated
    ctx.pmap(worker, items)
    # preemption bound 1 for every table; thorough additionally completes bound 2 for the smallest one
    e2 = [(c, 1) for c in (E2_QUICK if ctx.quick else E2_THOROUGH)] + ([] if ctx.quick else [(E2_QUICK[1], 2)])
    e2_items, infos = [], []
    for c, bound in e2:
        its, info = e2_plan(ctx, c, bound)
        e2_items += its
        if info is not None:
            info["preemption_bound"] = bound
        infos.append(info)
    ctx.pmap(e2_worker, e2_items)
    ctx.seed = save
    ctx.info["e2"] = infos
    ex = ctx.acc.extra
    ctx.exhaustive = True
    ctx.info["states"] = ex.get("e2_executions", 0)
    ctx.info["transitions"] = ex.get("e2_transitions", 0)
    ctx.info["traces_validated_against_impl"] = ex.get("e2_executions", 0)
    ctx.info["bound"] = {"family_A": {"features": "1..60", "identifier_sets": 4, "column_chunks": [2, 3, 5, 7, 19],
                                      "formats": ["pin", "parquet"], "missing": ["none", "first+last column"],
                                      "cases": len(a)},
                         "family_B": {"deviation_values": len(DEVIATIONS), "max_deviations": maxdev, "cases": len(b)},
                         "family_D_rewrite_histories": len(d), "family_E_rowchunk_x_missing": len(e),
                         "family_C": {"tables": len(e2), "preemption_bounds": [b for _, b in e2],
                                      "granularity": "entry"}}


def replay(case):
    acc = Acc()
    if "e2" in case:
        spec = case["e2"]
        s = full(spec)
        work = _scratch()
        try:
            path, expect = write(spec, work)

            def body(workers=None):
                return observe(parse(path, dict(s, workers=workers or s["workers"])))

            ref = repr(sorted(body(workers=1).items()))
            if "free_workers" in case:
                got = repr(sorted(body(workers=case["free_workers"]).items()))
                if got != ref:
                    acc.violation(Violation("joblib-free-run-differs", "differs from the sequential parse", case))
                return acc.violations
            outs = []
            for _ in range(2):  # a recorded schedule must reproduce identically
                exe, out, exc = sched.execute(body, case["schedule"], 0, "entry")
                outs.append(repr(sorted(out.items())) if exc is None else "EXC:" + exc_signature(exc))
            if outs[0] != outs[1]:
                acc.violation(Violation("harness-nondeterministic-replay", "same schedule, different observations",
                                        case))
            elif outs[0] != ref:
                acc.violation(Violation("schedule-changes-parse-result" if not outs[0].startswith("EXC:") else
                                        "schedule-crash:" + outs[0][4:], "replayed schedule differs from the "
                                        "sequential parse", case))
        finally:
            shutil.rmtree(work, ignore_errors=True)
        return acc.violations
    if "history" in case:
        check_history(case, acc)
        return acc.violations
    check_case(case, acc)
    return acc.violations
