"""C17 - in-silico digestion equals the definition (bounded exhaustive enumeration, E1).

Space: every sequence over {A,K,P,M} (patterns [KR], [KR](?!P), K) and over {A,D,M} (pattern
(?=D)) up to the length bound x missed cleavages 0..3 x every 1 <= min <= max <= len+1 x
clip_nterm_methionine x semi; the pattern is passed as str, and also as compiled regex up to a
smaller length.  Oracle: mc/ref/digest.py (must <= digest <= allowed), the monotonicity clauses of
the statement checked on the implementation's own results, and "every peptide is a substring".
"""

from __future__ import annotations

import itertools
import re

from mc.core import Acc, Violation
from mc.ref.digest import ref_sites, ref_items, select, ref_digest, ref_digest_plain

PROPERTY = "C17"
SIZE_MODULES = ['mokapot.parsers.fasta']  # see mc.runner._sized_passes
LEVEL = "exploration"
RULE = (
    "cases = (sequence, enzyme pattern, str/compiled, missed cleavages, min_length, max_length, clip, semi), "
    "every combination enumerated exactly once, shortest sequences first; a case is "
    "non-trivial iff the reference digest is non-empty and is not just {whole sequence}; cases are distinct by "
    "construction (counted, not hashed); outcomes = hash of the returned peptide set folded into 2^20 buckets "
    "(a lower bound on the number of distinct results)"
)
ASSUMPTIONS = [
    "min_length >= 1 (the empty string is never a peptide); bounds beyond len(sequence)+1 are not explored "
    "(by the definition they are equivalent to len(sequence)+1)",
    "cleavage sites are taken as DISTINCT positions {0, len} U {match ends}, as the statement says",
    "where the statement is silent the reference accepts both readings: semi prefixes of a clipped form, and the "
    "clipped form of an N-terminal peptide that is exactly one residue longer than max_length",
    "over {A,K,P,M} the patterns [KR] and K have the same sites; K is therefore explored one length less than [KR]",
]

PATTERNS = {"[KR]": "AKPM", "[KR](?!P)": "AKPM", "K": "AKPM", "(?=D)": "ADM", "(?=M)": "AMK",
            # double digest: both alternatives can fire at the same position ("...KD...")
            "[KR]|(?=D)": "AKD",
            # compiled patterns that carry flags (lost if the pattern is re-compiled from its text)
            "I:[kr]": "AKPM", "X:[KR] (?!P)  # trypsin, not before proline": "AKPM"}
MC = (0, 1, 2, 3)
BUCKETS = (1 << 20) - 1
SELFCHECK_LEN = 4


FLAGS = {"I:": re.IGNORECASE, "X:": re.VERBOSE}


def enzyme_of(pattern, compiled):
    """Pattern text, compiled pattern, or - for 'I:'/'X:' prefixed entries - a pattern compiled WITH flags."""
    if pattern[:2] in FLAGS:
        return re.compile(pattern[2:], FLAGS[pattern[:2]])
    return re.compile(pattern) if compiled else pattern


def _digest(case):
    from mokapot.parsers.fasta import digest

    enz = enzyme_of(case["pattern"], case["compiled"])
    return digest(case["seq"], enzyme_regex=enz, missed_cleavages=case["mc"],
                  clip_nterm_methionine=case["clip"], min_length=case["min"], max_length=case["max"],
                  semi=case["semi"])


def report(acc, signature, message, case, expected=None, observed=None):
    """Record a violation; after 10 of one signature per work item only count (keeps broken trees fast)."""
    acc.count("viol:" + signature)
    if acc.extra["viol:" + signature] <= 10:
        acc.violation(Violation(signature, message, case, expected, observed))
    else:
        acc.n_violations += 1


def judge(case, got, must, allowed, acc):
    """Compare one result with the reference; returns True iff it agrees."""
    if got == must:
        return True
    if not isinstance(got, (set, frozenset)) or not all(isinstance(p, str) for p in got):
        report(acc, "digest-not-a-set-of-str", f"digest returned {type(got).__name__}", case, must, got)
        return False
    missing, extra = must - got, got - allowed
    foreign = {p for p in extra if p == "" or p not in case["seq"]}
    if missing:
        report(acc, "digest-missing-peptide",
               f"peptides required by the definition are absent: {sorted(missing)[:6]}", case, must, got)
    if foreign:
        report(acc, "digest-not-substring",
               f"returned strings that are empty or not substrings: {sorted(foreign)[:6]}", case, must, got)
    if extra - foreign:
        report(acc, "digest-extra-peptide",
               f"peptides the enzyme rules do not allow: {sorted(extra - foreign)[:6]}", case, allowed, got)
    if missing or extra:
        return False
    acc.count("accepted_by_lax_reading")
    return True


def neighbours(case):
    """Configurations that allow more: the result may only grow (statement, second sentence)."""
    if case["mc"] < MC[-1]:
        yield "mc", dict(case, mc=case["mc"] + 1)
    if case["min"] > 1:
        yield "min", dict(case, min=case["min"] - 1)
    if case["max"] < len(case["seq"]) + 1:
        yield "max", dict(case, max=case["max"] + 1)
    if not case["semi"]:
        yield "semi", dict(case, semi=True)


def not_monotone(case, axis, small, big, acc):
    report(acc, f"digest-not-monotone:{axis}",
           f"allowing more ({axis}) removed peptides {sorted(small - big)[:6]}", case, small, big)


def check_case(case, acc):
    """One case, stand-alone (used by replay; check_sequence does the same over a whole grid)."""
    try:
        got = _digest(case)
    except Exception as e:
        report(acc, f"digest-raises:{type(e).__name__}", f"digest raised {type(e).__name__}: {e}", case)
        return None
    if case.get("history") == "modify-result-then-repeat" and isinstance(got, set):
        snap = set(got)
        got.add("#changed-by-caller#")
        again = _digest(case)
        if again != snap:
            report(acc, "digest-repeat-differs-after-result-was-modified",
                   "the caller modified the returned set; the same call then returned another digest", case,
                   expected=sorted(snap), observed=sorted(map(str, again)))
        got = snap
    must, allowed = ref_digest(case["seq"], enzyme_of(case["pattern"], True), case["mc"], case["min"], case["max"],
                               case["clip"], case["semi"])
    judge(case, got, must, allowed, acc)
    if isinstance(got, (set, frozenset)):
        for axis, nb in neighbours(case):
            big = _digest(nb)
            if not got <= big:
                not_monotone(case, axis, got, big, acc)
    return got


def check_sequence(digest, seq, pattern, compiled, acc):
    """Every parameter combination of one (sequence, pattern)."""
    n = len(seq)
    enz = enzyme_of(pattern, compiled)
    sites = ref_sites(seq, enzyme_of(pattern, True))
    whole = {seq}
    grid = {}

    def case_of(mc, clip, semi, lo, hi):
        return dict(seq=seq, pattern=pattern, compiled=compiled, mc=mc, min=lo, max=hi, clip=clip, semi=semi)

    for mc in MC:
        for clip in (False, True):
            for semi in (False, True):
                must_items, may_items = ref_items(seq, sites, mc, clip, semi)
                for lo in range(1, n + 2):
                    for hi in range(lo, n + 2):
                        try:
                            got = digest(seq, enzyme_regex=enz, missed_cleavages=mc, clip_nterm_methionine=clip,
                                         min_length=lo, max_length=hi, semi=semi)
                        except Exception as e:
                            report(acc, f"digest-raises:{type(e).__name__}",
                                   f"digest raised {type(e).__name__}: {e}", case_of(mc, clip, semi, lo, hi))
                            acc.case(nontrivial=False, cls="crash")
                            continue
                        if lo == 1 and isinstance(got, set):
                            # history: the caller changes the set it was given (pool |= ..., discard) and asks again
                            snap = set(got)
                            got.add("#changed-by-caller#")
                            again = digest(seq, enzyme_regex=enz, missed_cleavages=mc, clip_nterm_methionine=clip,
                                           min_length=lo, max_length=hi, semi=semi)
                            acc.count("repeat_after_caller_changed_result")
                            if again != snap:
                                report(acc, "digest-repeat-differs-after-result-was-modified",
                                       "the caller modified the returned set; the same call then returned another digest",
                                       dict(case_of(mc, clip, semi, lo, hi), history="modify-result-then-repeat"),
                                       expected=sorted(snap), observed=sorted(map(str, again)))
                            got = snap
                        must = select(must_items, lo, hi)
                        if got != must:
                            allowed = must | select(may_items, lo, hi)
                            if not judge(case_of(mc, clip, semi, lo, hi), got, must, allowed, acc):
                                if not isinstance(got, (set, frozenset)):
                                    acc.case(nontrivial=False, cls="wrong_type")
                                    continue
                        if n <= SELFCHECK_LEN:
                            acc.count("reference_selfchecks")
                            if ref_digest_plain(seq, enzyme_of(pattern, True), mc, lo, hi, clip, semi) != (
                                    must, must | select(may_items, lo, hi)):
                                report(acc, "harness-reference-disagrees", "fast and literal reference differ",
                                       case_of(mc, clip, semi, lo, hi))
                        grid[(mc, clip, semi, lo, hi)] = got
                        nontrivial = bool(must) and must != whole
                        acc.case(nontrivial=nontrivial, cls="result",
                                 outcome=hash(frozenset(got)) & BUCKETS,
                                 sample=dict(case_of(mc, clip, semi, lo, hi), digest=sorted(must))
                                 if nontrivial and acc.evaluations % 50021 == 11 else None)
    # monotonicity over the grid (same relation as neighbours())
    pairs = 0
    for (mc, clip, semi, lo, hi), got in grid.items():
        for axis, key in (("mc", (mc + 1, clip, semi, lo, hi)), ("min", (mc, clip, semi, lo - 1, hi)),
                          ("max", (mc, clip, semi, lo, hi + 1)), ("semi", (mc, clip, True, lo, hi))):
            big = grid.get(key)
            if big is None or big is got:
                continue
            pairs += 1
            if not got <= big:
                not_monotone(case_of(mc, clip, semi, lo, hi), axis, got, big, acc)
    acc.count("monotonicity_pairs", pairs)


def worker(item):
    from mokapot.parsers.fasta import digest
    import mokapot

    assert mokapot.digest is digest
    n, prefix, patterns, compiled = item
    acc = Acc()
    alphabet = PATTERNS[patterns[0]]
    for rest in itertools.product(alphabet, repeat=n - len(prefix)):
        seq = prefix + "".join(rest)
        for pattern in patterns:
            check_sequence(digest, seq, pattern, compiled, acc)
            acc.count("sequence_pattern_pairs")
    return acc


def _items(n, patterns, compiled):
    alphabet = PATTERNS[patterns[0]]
    p = max(0, n - (4 if len(alphabet) == 4 else 5))
    return [(n, "".join(pre), patterns, compiled) for pre in itertools.product(alphabet, repeat=p)]


def run(ctx):
    if ctx.quick:
        full, deep, deep_ad, comp = 7, 7, 8, 5
    else:
        full, deep, deep_ad, comp = 8, 9, 10, 6
    akpm = tuple(p for p, a in PATTERNS.items() if a == "AKPM")
    items = []
    for n in range(0, deep_ad + 1):  # shortest first, so the first counterexample kept is the smallest
        if n < full:
            items += _items(n, akpm, False)
        elif n == full:  # "K" has the same sites as "[KR]" over AKPM: not repeated at the deepest level
            items += _items(n, ("[KR]", "[KR](?!P)"), False)
        elif n <= deep:
            items += _items(n, ("[KR](?!P)",), False)
        items += _items(n, ("(?=D)",), False)
        if n <= deep_ad - 2:  # zero-width match at position 0 of a sequence starting with M (N-terminal clipping)
            items += _items(n, ("(?=M)",), False)
        if n <= deep_ad - 2:
            items += _items(n, ("[KR]|(?=D)",), False)
        if n <= comp:
            items += _items(n, ("I:[kr]", "X:[KR] (?!P)  # trypsin, not before proline"), True)
            items += _items(n, akpm, True) + _items(n, ("(?=D)",), True)
    ctx.pmap(worker, items, chunksize=1)
    ctx.exhaustive = True
    ctx.info["bound"] = {
        "max_len_AKPM_[KR]": full, "max_len_AKPM_K": full - 1, "max_len_AKPM_[KR](?!P)": deep,
        "max_len_ADM_(?=D)": deep_ad, "max_len_AMK_(?=M)": deep_ad - 2,
        "max_len_compiled_regex": comp, "min_len": 0, "missed_cleavages": list(MC),
        "length_bounds": "every 1 <= min <= max <= len+1", "clip_x_semi": 4,
    }
    ctx.info["explanation"] = (
        f"every sequence over AKPM up to length {full} x [KR], [KR](?!P) (K: length {full - 1}; [KR](?!P): length "
        f"{deep}), every sequence over ADM up to length {deep_ad} x (?=D); compiled patterns up to length {comp}; "
        "all parameters per sequence"
    )


def replay(case):
    acc = Acc()
    check_case(case, acc)
    return acc.violations
