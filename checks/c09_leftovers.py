"""C09 - a run's results depend only on its inputs, not on leftovers of earlier runs (E3).

Explicit-state search over directory states.  A state is the content of the destination directory and of the
user's input directory; an edge is one run (configuration, fault) of assign_confidence, the roll-up tool or the
CLI with one injected fault at one intercepted file-mutating call.  In EVERY reached state each run
configuration is executed fault-free and compared with the same run from the pristine state:
 (a) result files byte-identical, no exception;
 (b) confidence assignment / CLI leave none of their own intermediate files;
 (c) CLI: the user's PIN file equals the conversion of the ORIGINAL input.
"""

from __future__ import annotations

import io
import os
import shutil
from pathlib import Path

import numpy as np
import pandas as pd

from mc import faults
from mc.core import Acc, Violation, worker_scratch, exc_signature
from mc.datasets import gen_psms, make_dataset, set_chunks, DEFAULT_CHUNKS, write_table

PROPERTY = "C09"
SIZE_MODULES = ['mokapot.confidence', 'mokapot.mokapot', 'mokapot.brew_rollup', 'mokapot.tabular_data', 'mokapot.streaming']  # see mc.runner._sized_passes
LEVEL = "fault_enumeration"
RULE = (
    "state = {file name -> content} of destination + input directory; transitions = (run configuration, index of "
    "intercepted file-mutating call, fault kind in error-before/error-after/kill-before/kill-after/torn) plus the "
    "fault-free run of every configuration (an earlier successful run with other inputs/chunking/prefix) and the user "
    "re-exporting an input file as an already rectangular table; breadth-first "
    "from the pristine state with de-duplication on the canonical state; evaluation = one fault-free run of one "
    "configuration in one reached state compared with the pristine-state run. Non-trivial iff the state contains at "
    "least one file that is not an input (a leftover); distinct by (state hash, configuration)"
)
ASSUMPTIONS = [
    "a crash is modelled at the granularity of the intercepted calls (to_csv, to_parquet, ParquetWriter "
    "open/write/close, unlink, move, open-for-write); torn = first half of the rows/lines of one write",
    "dead mode: after a kill every later intercepted call fails, so cleanup code cannot run",
    "the roll-up tool keeps its rollup.temp.* files by design: only clause (a) is claimed for it",
    "max_workers=1 (schedules are C05's topic)",
]

BIG = 10**6


# ------------------------------------------------------------------------------------------------
# fixed inputs (never watched): tables for assign_confidence, result files for the roll-up tool
# ------------------------------------------------------------------------------------------------
def tables():
    a, spec = gen_psms([1, 2, 1, 1, 2, 1, 1, 1, 2, 1, 1, 1], offset=0)
    b, _ = gen_psms([2, 1, 1, 3, 1, 1, 1, 1, 1, 2], offset=4, pattern=3)
    return {"T1": a, "T2": b}, spec


def ragged_pin(df, k):
    lines = ["SpecId\tLabel\tScanNr\tExpMass\tf_key\tf2\tPeptide\tProteins"]
    for i, r in df.reset_index(drop=True).iterrows():
        prots = "\t".join(f"P{k}_{j}" for j in range(1 + (i + k) % 3))
        lines.append(f"{r.SpecId}\t{r.Label}\t{r.ScanNr}\t{r.ExpMass}\t{r.f_key}\t{r.f2}\t{r.Peptide}\t{prots}")
    return "\n".join(lines) + "\n"


def reference_tsv(text):
    """Rectangular conversion of a ragged PIN, written independently of mokapot."""
    lines = text.rstrip("\n").split("\n")
    ncol = len(lines[0].split("\t"))
    out = [lines[0]]
    for l in lines[1:]:
        f = l.split("\t")
        out.append("\t".join(f[: ncol - 1] + [":".join(f[ncol - 1:])]))
    return "\n".join(out) + "\n"


RUNS = (
    [dict(kind="conf", table=t, chunk=c, prefix=p, fmt="pin") for t in ("T1", "T2") for c in (BIG, 4) for p in (None, "x")]
    + [dict(kind="conf", table="T1", chunk=4, prefix=None, fmt="parquet"),
       dict(kind="conf", table="T2", chunk=BIG, prefix="x", fmt="parquet")]
    + [dict(kind="cli", pin="r1", chunk=BIG), dict(kind="cli", pin="r2", chunk=4)]
    + [dict(kind="rollup")]
    # confidence assignment followed by the roll-up tool working in place (src_dir == dest_dir, the tool's default):
    # results of an earlier roll-up in that directory are leftovers, not inputs
    + [dict(kind="confroll", table="T1"), dict(kind="confroll", table="T2")]
    # confidence assignment with protein-level results (one more level file: the picked-protein table)
    + [dict(kind="confprot")]
    # two collections without prefixes combined into one set of result files (what --aggregate does)
    + [dict(kind="conf2", chunk=BIG)]
)


# quick tier: a representative subset of the configurations (same kinds, both tables, both chunkings, one Parquet)
QUICK_RUNS = [0, 2, 5, 7, 8, 10, 11, 12, 13, 14, 15, 16]


class Env:
    """Per-worker directories: fixed/ (unwatched inputs), out/ and in/ (watched)."""

    def __init__(self):
        self.root = worker_scratch().sub()
        self.fixed = self.root / "fixed"
        self.out = self.root / "out"
        self.inp = self.root / "in"
        self.fixed.mkdir()
        tabs, self.spec = tables()
        self.tabs = tabs
        for name, df in tabs.items():
            write_table(df, self.fixed / f"{name}.pin")
            write_table(df, self.fixed / f"{name}.parquet", row_group_size=5)
        self.pins = {"r1": ragged_pin(tabs["T1"], 1), "r2": ragged_pin(tabs["T2"], 2)}
        # result files for the roll-up tool
        from mokapot.confidence import assign_confidence

        res = self.fixed / "res"
        res.mkdir()
        set_chunks(**DEFAULT_CHUNKS)
        ds = [make_dataset(tabs[t], self.fixed / f"{t}.pin", features=["f_key", "f2"], spectrum=self.spec, write=False) for t in ("T1", "T2")]
        assign_confidence(ds, max_workers=1, scores=[tabs[t]["f_key"].values.astype(float) for t in ("T1", "T2")],
                          descs=[True, True], dest_dir=res, file_root="m.", prefixes=["a", "b"], decoys=True)
        self.initial = {f"1:{k}.pin": v.encode() for k, v in self.pins.items()}
        self.clean = {}

    def dirs(self):
        return [self.out, self.inp]

    def execute(self, run, plan=None):
        """One run from the current directory content. Returns (status, exc, trace, fired)."""
        import mokapot.mokapot as cli
        from mokapot import brew_rollup
        from mokapot.confidence import assign_confidence

        inj = faults.Injector(self.dirs(), plan)
        set_chunks(**dict(DEFAULT_CHUNKS, CONFIDENCE_CHUNK_SIZE=run.get("chunk", BIG)))
        try:
            if run["kind"] == "conf":
                df = self.tabs[run["table"]]
                ext = ".pin" if run["fmt"] == "pin" else ".parquet"
                ds = make_dataset(df, self.fixed / f"{run['table']}{ext}", features=["f_key", "f2"], spectrum=self.spec, write=False)
                fn = lambda: assign_confidence([ds], max_workers=1, scores=[df["f_key"].values.astype(float)], descs=[True],  # noqa: E731
                                               dest_dir=self.out, prefixes=[run["prefix"]], decoys=True)
            elif run["kind"] == "conf2":
                dss = [make_dataset(self.tabs[t], self.fixed / f"{t}.pin", features=["f_key", "f2"], spectrum=self.spec, write=False)
                       for t in ("T1", "T2")]
                fn = lambda: assign_confidence(dss, max_workers=1, scores=[self.tabs[t]["f_key"].values.astype(float) for t in ("T1", "T2")],  # noqa: E731
                                               descs=[True, True], dest_dir=self.out, prefixes=[None, None], decoys=True)
            elif run["kind"] == "confprot":
                import mokapot
                from checks import c08_determinism as c8

                pdf = c8.table()
                pds = make_dataset(pdf, self.fixed / "P.pin", features=["f_key", "f2", "f3"], spectrum=["ScanNr", "ExpMass"],
                                   write=not (self.fixed / "P.pin").exists())
                fa = self.fixed / "P.fasta"
                if not fa.exists():
                    fa.write_text(c8.fasta_text(True))
                prot = mokapot.read_fasta(fa, missed_cleavages=0, min_length=6)
                fn = lambda: assign_confidence([pds], max_workers=1, scores=[pdf["f_key"].values.astype(float)], descs=[True],  # noqa: E731
                                               dest_dir=self.out, prefixes=["pr"], decoys=True, proteins=prot, rng=1)
            elif run["kind"] == "confroll":
                df = self.tabs[run["table"]]
                ds = make_dataset(df, self.fixed / f"{run['table']}.pin", features=["f_key", "f2"], spectrum=self.spec, write=False)
                sub = self.out / "inplace"

                def fn():
                    sub.mkdir(exist_ok=True)
                    assign_confidence([ds], max_workers=1, scores=[df["f_key"].values.astype(float)], descs=[True], dest_dir=sub,
                                      file_root="m.", prefixes=[None], decoys=True)
                    brew_rollup.main(["--level", "peptide", "--src_dir", str(sub), "--dest_dir", str(sub), "--verbosity", "0"])
            elif run["kind"] == "rollup":
                fn = lambda: brew_rollup.main(["--level", "psm", "--src_dir", str(self.fixed / "res"), "--dest_dir", str(self.out),  # noqa: E731
                                               "--verbosity", "0"])
            else:
                pin = self.inp / f"{run['pin']}.pin"
                fn = lambda: cli.main([str(pin), "--dest_dir", str(self.out), "--max_iter", "1", "--train_fdr", "0.3",  # noqa: E731
                                       "--test_fdr", "0.3", "--verbosity", "0", "--folds", "2", "--keep_decoys"])
            status, res = faults.run_with(inj, fn)
        finally:
            set_chunks(**DEFAULT_CHUNKS)
            import logging

            logging.disable(logging.CRITICAL)
        return status, res, inj.trace, inj.fired

    def result_names(self, run):
        if run["kind"] in ("rollup", "confroll"):
            return None
        if run["kind"] == "confprot":
            return {f"0:pr.{td}.{lvl}" for td in ("targets", "decoys") for lvl in ("psms", "peptides", "proteins")}
        pfx = (run["prefix"] + ".") if run.get("prefix") else ""
        return {f"0:{pfx}{td}.{lvl}" for td in ("targets", "decoys") for lvl in ("psms", "peptides")}

    def clean_run(self, run):
        key = repr(sorted(run.items(), key=str))
        if key not in self.clean:
            faults.materialize(self.initial, self.dirs())
            status, res, trace, _ = self.execute(run)
            if status != "ok":
                raise RuntimeError(f"pristine-state run failed for {run}: {res!r}")
            snap = faults.snapshot(self.dirs())
            self.clean[key] = (snap, trace)
        return self.clean[key]


_ENV = None
# ParquetWriter.__del__ closes the file again after an injected fault: unraisable, irrelevant noise on stderr
import sys as _sys

_sys.unraisablehook = lambda *a: None


def env():
    global _ENV
    if _ENV is None or _ENV[0] != os.getpid():
        _ENV = (os.getpid(), Env())
    return _ENV[1]


def is_intermediate(name):
    n = name.split(":", 1)[1]
    return ("scores_metadata_" in n or n.endswith(".tsv") or n in ("psms.pin", "peptides.pin", "psms.parquet", "peptides.parquet")
            or n.startswith("x.psms") or n.startswith("x.peptides"))


def check_state_run(state, run, acc, hist):
    """Invariant: fault-free `run` in `state` behaves as from the pristine state."""
    e = env()
    clean, _ = e.clean_run(run)
    faults.materialize(state, e.dirs())
    status, res, trace, _ = e.execute(run)
    case = {"history": hist, "run": run}
    leftovers = [k for k in state if k not in e.initial]
    tag = f"{run['kind']}"
    if status != "ok":
        acc.violation(Violation(f"{tag}-fails-after-leftovers:" + (exc_signature(res) if isinstance(res, BaseException) else "?"),
                                f"{run}: succeeds from the pristine directory but raised {res!r} in a directory holding {leftovers[:6]}", case))
        return "raised", trace
    after = faults.snapshot(e.dirs())
    names = e.result_names(run)
    want = {k: v for k, v in clean.items() if k.startswith("0:") and (names is None or k in names)}
    if names is None:  # roll-up tool: its output files are whatever the pristine run wrote (minus its temp files)
        want = {k: v for k, v in want.items() if ".temp." not in k}
        if run["kind"] == "confroll":
            want = {k: v for k, v in want.items() if k.startswith("0:inplace/")}
    diff = [k for k in want if after.get(k) != want[k]]
    if diff:
        acc.violation(Violation(f"{tag}-results-depend-on-leftovers",
                                f"{run}: result file(s) {sorted(diff)[:4]} differ from the pristine-directory run when the directory "
                                f"already holds {leftovers[:6]}", case))
    if run["kind"] not in ("rollup", "confroll"):
        new = [k for k in after if k not in state and k not in want and k.startswith("0:")]
        new += [k for k in after if k.startswith("1:") and k.endswith(".tsv") and k not in state]
        # a pre-existing file that this run re-wrote (same name, other content) and left behind is its own intermediate file
        new += [k for k in after if k in state and after[k] != state[k] and k not in want and not k.endswith(".pin")]
        if new:
            acc.violation(Violation(f"{tag}-leaves-intermediate-files", f"{run}: intermediate file(s) {sorted(new)[:5]} remain after a successful run", case))
        # intermediates of this run's own name pattern that pre-existed must not survive as *modified* files either
    if run["kind"] == "cli":
        k = f"1:{run['pin']}.pin"
        ref = reference_tsv(e.pins[run["pin"]]).encode()
        if after.get(k) != ref:
            acc.violation(Violation("cli-input-file-mixes-leftovers",
                                    f"{run}: after a successful run the user's input file is not the conversion of the original input "
                                    f"(directory held {leftovers[:6]})", case))
        tsv = f"1:{run['pin']}.pin.tsv"
        if tsv in after and after[tsv] != state.get(tsv):
            # (an untouched <pin>.tsv of an earlier, interrupted run is not an intermediate file of THIS run)
            acc.violation(Violation("cli-leaves-intermediate-files", f"{tsv} written by this run remains after it succeeded", case))
    _AFTER[0] = after
    return "ok", trace


_AFTER = [None]


def worker(item):
    state, hist, run_idx, expand_kinds = item
    acc = Acc()
    e = env()
    run = RUNS[run_idx]
    key = faults.state_key(state)
    cls, trace = check_state_run(state, run, acc, hist)
    nontrivial = any(k not in e.initial for k in state)
    acc.case(key=(key, run_idx), nontrivial=nontrivial, outcome=cls, cls=cls,
             sample={"state_files": sorted(state), "run": run, "history": hist} if nontrivial and acc.evaluations % 50 == 1 else None)
    if expand_kinds and cls == "ok":
        seen = {}
        # an earlier *successful* run (other inputs, chunking, prefix) is a history step as well
        ok_state = _AFTER[0]
        seen[faults.state_key(ok_state)] = (ok_state, hist + [{"run": run, "fault": [-1, "none", []]}])
        acc.count("transitions")
        if run["kind"] == "cli":
            # user action between runs: the input file is re-exported as an already rectangular table of the same data
            k_in = f"1:{run['pin']}.pin"
            st2 = dict(state)
            st2[k_in] = reference_tsv(e.pins[run["pin"]]).encode()
            if st2 != state:
                seen[faults.state_key(st2)] = (st2, hist + [{"run": run, "fault": [-2, "user-reexport", [k_in]]}])
                acc.count("transitions")
        for k in range(len(trace)):
            for kind in expand_kinds:
                if kind == "torn" and not (trace[k][0].startswith("to_csv") or trace[k][0].startswith("open") or trace[k][0] == "to_parquet"):
                    continue
                faults.materialize(state, e.dirs())
                status, res, tr, fired = e.execute(run, plan=(k, kind))
                acc.count("faulty_runs")
                if not fired:
                    acc.count("fault_not_reached")
                    continue
                if status == "ok":
                    acc.count("faulty_runs_that_still_succeeded")
                st = faults.snapshot(e.dirs())
                sk = faults.state_key(st)
                if sk not in seen:
                    seen[sk] = (st, hist + [{"run": run, "fault": [k, kind, list(trace[k])]}])
                acc.count("transitions")
        acc.payload.extend(seen.values())
    return acc


def run(ctx):
    e = env()
    initial = dict(e.initial)
    kinds_full = faults.KINDS
    run_ids = QUICK_RUNS if ctx.quick else list(range(len(RUNS)))
    # (fault kinds used to expand the states of this depth, max. number of states expanded, max. number evaluated)
    if ctx.quick:
        depth_plan = [(kinds_full, None, None), (("kill-after",), 10, None), ((), None, 160)]
    else:
        depth_plan = [(kinds_full, None, None), (("kill-after", "torn"), 30, None), (("kill-after",), 6, 1500), ((), None, 400)]
    states = {faults.state_key(initial): (initial, [])}
    frontier = [faults.state_key(initial)]
    priority = set()  # states always evaluated first: a stale <pin>.tsv next to a re-exported (already valid) input
    save, ctx.seed = ctx.seed, 0
    levels = []
    for depth, (kinds, cap, eval_cap) in enumerate(depth_plan):
        # deterministic order: states with the most leftover files first (most likely to interfere)
        frontier = sorted(frontier, key=lambda k: (k not in priority, -len(states[k][0]), k))
        evaluate = frontier
        if eval_cap is not None and len(frontier) > eval_cap:
            evaluate = frontier[:eval_cap]
            ctx.acc.caps.append(f"depth {depth}: {len(frontier)} states reached, fault-free evaluation restricted to {eval_cap}")
        expand = set(evaluate if cap is None else evaluate[:cap]) if kinds else set()
        if kinds and cap is not None and len(frontier) > cap:
            ctx.acc.caps.append(f"depth {depth}: expansion restricted to {cap} of {len(frontier)} states (most leftovers first)")
        items = []
        for sk in evaluate:
            st, hist = states[sk]
            for ri in run_ids:
                items.append((st, hist, ri, tuple(kinds) if sk in expand else ()))
        before = len(ctx.acc.payload)
        ctx.pmap(worker, items)
        new = ctx.acc.payload[before:]
        del ctx.acc.payload[before:]
        nxt = []
        for st, hist in new:
            k = faults.state_key(st)
            if k not in states:
                states[k] = (st, hist)
                nxt.append(k)
            # user action on every new state that holds a leftover of an interrupted conversion: the input file is
            # re-exported as an already rectangular table (no run involved, so this costs nothing)
            for name in ("r1", "r2"):
                if f"1:{name}.pin.tsv" in st:
                    st2 = dict(st)
                    st2[f"1:{name}.pin"] = reference_tsv(e.pins[name]).encode()
                    k2 = faults.state_key(st2)
                    if k2 not in states:
                        run_cli = next(r for r in RUNS if r["kind"] == "cli" and r["pin"] == name)
                        states[k2] = (st2, hist + [{"run": run_cli, "fault": [-2, "user-reexport", [f"1:{name}.pin"]]}])
                        nxt.append(k2)
                        priority.add(k2)
                        ctx.acc.count("transitions")
        levels.append({"depth": depth, "states_at_depth": len(frontier), "evaluated": len(evaluate), "expanded": len(expand),
                       "fault_kinds": list(kinds), "new_states": len(nxt)})
        frontier = nxt
        if not kinds or not frontier:
            break
    ctx.seed = save
    ctx.info["states"] = len(states)
    ctx.info["transitions"] = ctx.acc.extra.get("transitions", 0)
    ctx.info["levels"] = levels
    ctx.info["run_configurations"] = len(run_ids)
    ctx.info["bound"] = {"history_depth": len(depth_plan)}
    ctx.exhaustive = not ctx.acc.caps


def replay(case):
    """Re-create the state by replaying the fault history, then evaluate the run."""
    acc = Acc()
    e = env()
    faults.materialize(e.initial, e.dirs())
    for step in case["history"]:
        if step["fault"][1] == "user-reexport":
            (e.inp / f"{step['run']['pin']}.pin").write_bytes(reference_tsv(e.pins[step["run"]["pin"]]).encode())
            continue
        e.execute(step["run"], plan=None if step["fault"][1] == "none" else (step["fault"][0], step["fault"][1]))
    state = faults.snapshot(e.dirs())
    check_state_run(state, case["run"], acc, case["history"])
    return acc.violations
