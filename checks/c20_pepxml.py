"""C20 - PepXML parsing turns every search hit into one faithful PSM (E1, deviation-bounded).

Alphabet: documents from mc/ref/pepxml.py (a builder that knows what it wrote): a default
document and every combination of up to k deviations from it over the dimensions
namespace, files, runs, spectra, hits, modification subset of {1,3,5}, primary/alternative protein
target-decoy pattern, decoy prefix, protein descriptions, tricky target names, per-hit rotation of
mods/proteins, optional attributes, base_name with extension, score family.
Negative inputs: Percolator score names, non-XML text, truncated XML, XML without runs - alone,
before and after a good file.
Oracle: the builder's expected records (statement only); negatives must raise.
"""

from __future__ import annotations

import itertools
import os

import numpy as np

from mc.core import Acc, Scratch, Violation, classify_exception, worker_scratch
from mc.ref.pepxml import DEFAULT, DIMS, NEGATIVES, build, negative

PROPERTY = "C20"
SIZE_MODULES = ['mokapot.parsers.pepxml']  # see mc.runner._sized_passes
LEVEL = "exploration"
RULE = (
    "positive case = set of at most k deviations (dimension, value) from the default document, at most "
    "one per dimension, enumerated completely for each size 0..k (simplest first); negative case = "
    "(kind of bad input, namespace, position alone/first/second next to a good file); a positive case "
    "is non-trivial iff the document has >= 2 hits, a modification or an alternative protein; distinct "
    "by the deviation set"
)
ASSUMPTIONS = [
    "documents follow the pepXML schema order (alternative_protein, modification_info, search_score "
    "inside search_hit) and carry base_name and raw_data on every run; start_scan = end_scan",
    "modification positions are ascending, as the statement's quantifier says",
    "score values are plain decimals, negative or within a narrow positive range, so they must come "
    "back numerically equal; for the p-value-like score 'expect' only a strictly monotone (order "
    "preserving or order reversing) numeric transform is required",
    "rows are required in document order, files in the order given",
    "the optional attributes num_missed_cleavages / num_tol_term / num_matched_peptides are only "
    "switched on and off; their derived features are not part of the statement and are not compared",
    "for rejected inputs any raised exception counts as 'rejected with an error'; the split into "
    "explicit errors and incidental crashes is reported in outcome_classes",
]

FIELDS = [("ms_data_file", "pepxml-datafile"), ("scan", "pepxml-scan"), ("charge", "pepxml-charge"),
          ("ret_time", "pepxml-rt"), ("exp_mass", "pepxml-precursor-mass"), ("proteins", "pepxml-proteins"),
          ("label", "pepxml-label")]


def strip_mods(p):
    out, depth = [], 0
    for ch in p:
        depth += ch == "["
        if not depth:
            out.append(ch)
        depth -= ch == "]"
    return "".join(out)


def write(texts, d):
    paths = []
    for i, t in enumerate(texts):
        paths.append(os.path.join(d, f"f{i}.pep.xml"))
        with open(paths[-1], "w") as fh:
            fh.write(t)
    return paths


def check_case(case, acc, d):
    """Returns (outcome hash, outcome class)."""
    import mokapot
    import pandas as pd

    def bad(sig, msg, exp=None, obs=None):
        if sig not in seen:
            seen.add(sig)
            acc.violation(Violation(sig, msg, case, exp, obs))

    seen = set()
    if case["kind"] == "neg":
        good = build(dict(ns=case["ns"]))[0][0]
        texts = {"alone": [negative(case["neg"], case["ns"])], "first": [negative(case["neg"], case["ns"]), good],
                 "second": [good, negative(case["neg"], case["ns"])]}[case["pos"]]
        paths = write(texts, d)
        try:
            df = mokapot.read_pepxml(paths, to_df=True)
        except Exception as e:
            cls, desc = classify_exception(e)
            return hash((type(e).__name__, desc.replace(d, ""))), cls
        finally:
            for p in paths:
                os.unlink(p)
        bad("pepxml-not-rejected:" + case["neg"].split(" ")[-1], f"input '{case['neg']}' ({case['pos']}) was "
            f"accepted: {len(df)} rows returned", "an error", f"{len(df)} rows")
        return hash(len(df)), "result"

    cfg = {k: v for k, v in case["cfg"]}
    texts, rows = build(cfg)
    prefix = cfg.get("prefix", DEFAULT["prefix"])
    paths = write(texts, d)
    try:
        df = mokapot.read_pepxml(paths if len(paths) > 1 else paths[0], decoy_prefix=prefix, to_df=True)
    except Exception as e:
        bad(f"pepxml-raises:{type(e).__name__}", f"read_pepxml raised {type(e).__name__}: {e}".replace(d, ""))
        return None, "crash"
    finally:
        for p in paths:
            os.unlink(p)
    if len(df) != len(rows):
        bad("pepxml-row-count", "number of PSMs differs from the number of search hits", len(rows), len(df))
        return hash(len(df)), "result"
    for col, sig in FIELDS + [("peptide", "pepxml-peptide")]:
        if col not in df.columns:
            bad("pepxml-column-missing:" + col, f"column {col} missing", col, list(df.columns))
            continue
        exp = [r[col] for r in rows]
        obs = df[col].tolist()
        if col == "ms_data_file":
            obs = [str(o) for o in obs]
        if obs != exp or (col == "label" and df[col].dtype != bool):
            if col == "peptide" and [strip_mods(o) for o in obs] == [r["bare_peptide"] for r in rows]:
                sig = "pepxml-mod-position"
            bad(sig, f"column {col} differs from what the document says", exp, obs)
    for fam, exact in (("scores", True), ("mono", False)):
        for name in rows[0][fam]:
            exp = np.array([r[fam][name] for r in rows])
            if name not in df.columns or not pd.api.types.is_numeric_dtype(df[name]):
                bad("pepxml-score-not-numeric:" + name, f"search score {name} is not a numeric column", exp,
                    df[name].tolist() if name in df.columns else list(df.columns))
                continue
            obs = df[name].to_numpy(dtype=float)
            if exact and not np.array_equal(obs, exp):
                bad("pepxml-score:" + name, f"search score {name} differs from the written values", exp, obs)
            if not exact:
                acc.count("expect_transformed" if not np.array_equal(obs, exp) else "expect_untransformed")
                a, b = np.sign(exp[:, None] - exp[None, :]), np.sign(obs[:, None] - obs[None, :])
                if not np.all(np.isfinite(obs)) or not (np.array_equal(a, b) or np.array_equal(a, -b)):
                    bad("pepxml-score-order:" + name, f"search score {name} is not an order-preserving image "
                        "of the written values", exp, obs)
    keep = [c for c, _ in FIELDS] + ["peptide"] + list(rows[0]["scores"]) + list(rows[0]["mono"])
    return hash(df[[c for c in keep if c in df.columns]].to_csv(index=False)), "result"


def deviation_sets(k):
    devs = [(dim, v) for dim, alts in DIMS.items() for v in alts]
    for n in range(k + 1):
        for combo in itertools.combinations(devs, n):
            if len({dim for dim, _ in combo}) == n:
                yield combo


def worker(cases):
    acc = Acc()
    d = str(worker_scratch().sub("c20"))
    for case in cases:
        h, cls = check_case(case, acc, d)
        if case["kind"] == "neg":
            acc.case(key=repr(case), nontrivial=True, outcome=h, cls=cls, sample=case if case["pos"] == "alone" else None)
            acc.count("negative_cases")
        else:
            c = dict(DEFAULT, **dict(case["cfg"]))
            nt = (c["files"] * c["runs"] * c["spectra"] * c["hits"] > 1 or bool(c["mods"]) or len(c["prots"]) > 1
                  or c["rotate"])
            acc.case(key=repr(case["cfg"]), nontrivial=nt, outcome=h, cls=cls,
                     sample=case if acc.evaluations % 97 == 1 else None)
            acc.count(f"deviations_{len(case['cfg'])}")
    return acc


def run(ctx):
    k = 3 if ctx.quick else 5
    cases = [{"kind": "doc", "cfg": [list(x) for x in combo]} for combo in deviation_sets(k)]
    cases += [{"kind": "neg", "neg": n, "ns": ns, "pos": pos}
              for n in NEGATIVES for ns in (True, False) for pos in ("alone", "first", "second")]
    size = 40
    ctx.pmap(worker, [cases[i:i + size] for i in range(0, len(cases), size)], chunksize=1)
    ctx.exhaustive = True
    ctx.info["bound"] = {"max_deviations": k, "dimensions": {d: len(a) for d, a in DIMS.items()},
                         "negatives": len(NEGATIVES) * 6}
    ctx.info["explanation"] = (f"default document and every set of <= {k} deviations over {len(DIMS)} dimensions "
                               f"({sum(len(a) for a in DIMS.values())} deviations); {len(NEGATIVES)} kinds of "
                               "rejected input x namespace x position")


def replay(case):
    acc = Acc()
    with Scratch("c20replay") as s:
        check_case(case, acc, str(s.path))
    return acc.violations
