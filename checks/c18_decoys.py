"""C18 - generated decoys preserve length, composition and cleavage structure (E1, exhaustive).

Alphabet: FASTA inputs written by the harness (it knows every name and sequence it wrote):
every sequence over {A,C,K,R} up to a length bound as one-entry files, pairs as two-entry files,
entries split over two input files, header/format variants, long multi-line records;
shuffle (global numpy RNG seeded 0..7) vs reverse; concatenate on/off; enzyme "[KR]".
Oracle: the statement itself, evaluated on the written file as read back by a small independent
FASTA parser and by the repository's own reader.  Enzymatic peptides are derived here from the
statement: sites = {0, end of every enzyme match, len}; a peptide is the span between two
consecutive distinct sites.
"""

from __future__ import annotations

import itertools
import json
import os
import re

import numpy as np

from mc.core import Acc, Scratch, Violation, worker_scratch

PROPERTY = "C18"
LEVEL = "exploration"
RULE = (
    "case = (input files as lists of [name, description, sequence, line width], trailing newline per "
    "file, decoy prefix, reverse?, concatenate?, numpy seed); families: single (every sequence over "
    "ACKR up to the bound x every mode), pair (every ordered pair of sequences as a two-entry file), "
    "twofile (entries split over two input files x trailing-newline patterns), format (names, "
    "descriptions, prefixes, trailing newline), wrap (long records built from repeating patterns x "
    "input line widths); a case is non-trivial iff some enzymatic peptide of some target has an "
    "interior (peptide minus first and last residue) with two different residues, i.e. a wrong "
    "permutation is observable; distinct by the whole case"
)
ASSUMPTIONS = [
    "input FASTA files are well formed: every file starts with '>' and holds at least one entry, "
    "names contain no whitespace, sequences are upper-case letters, '\\n' line ends",
    "a target 'entry' is its (name, sequence) pair: the description after the first space of a "
    "header is not part of the name and is not required to be reproduced",
    "'any RNG state' is enumerated as numpy.random.seed(s), s in 0..7, set immediately before the call",
    "the shuffle is not required to differ from the target (the statement does not say so)",
    "enzyme is the residue-class pattern [KR] (the statement speaks of a residue-class enzyme)",
]

ENZYME = "[KR]"
MODES_FULL = [(True, None, c) for c in (True, False)] + [(False, s, c) for s in range(8) for c in (True, False)]
MODES_LITE = [(True, None, True), (False, 0, True), (False, 1, False)]
PATTERNS = ["ACDEFGK", "ACDEFGHILMNPQSTVWY", "ACDEFGHILMNPQSTVWYACDEFGHILMNPQSTVWYKR", "KACR"]


# --- reference side (statement only) ----------------------------------------------------------
def read_fasta(text):
    """Independent FASTA reader: [(name, sequence)], name = header up to the first space."""
    out = []
    for line in text.split("\n"):
        if line.startswith(">"):
            out.append([line[1:].split(" ")[0], ""])
        elif line.strip():
            out[-1][1] += line.strip()
    return [tuple(e) for e in out]


def peptides(seq):
    s = sorted({0, len(seq)} | {m.end() for m in re.finditer(ENZYME, seq)})
    return list(zip(s, s[1:]))


def kr_sites(seq):
    return [m.end() for m in re.finditer(ENZYME, seq)]


def file_text(entries, nl):
    recs = []
    for name, desc, seq, width in entries:
        head = ">" + name + (" " + desc if desc else "")
        lines = [seq[i:i + width] for i in range(0, len(seq), width)] if width else ([seq] if seq else [])
        recs.append("\n".join([head] + lines))
    return "\n".join(recs) + ("\n" if nl else "")


def nontrivial(case):
    for f in case["files"]:
        for _, _, seq, _ in f:
            if any(len(set(seq[s + 1:e - 1])) > 1 for s, e in peptides(seq)):
                return True
    return False


SIZE_NAMES = []  # size constants found in mokapot.parsers.fasta (set in run(), inherited by the forked workers)


# --- one case ---------------------------------------------------------------------------------
def check_case(case, acc, d):
    """Run make_decoys on one case (files under directory d), judge it, return a hash of the output."""
    import mokapot
    from mokapot.parsers.fasta import _parse_fasta_files, _parse_protein

    paths = []
    for i, (entries, nl) in enumerate(zip(case["files"], case["nl"])):
        p = os.path.join(d, f"in{i}.fasta")
        with open(p, "w", encoding="utf-8") as fh:
            fh.write(file_text(entries, nl))
        paths.append(p)
    out = os.path.join(d, "out.fasta")
    prefix, reverse, concat = case["prefix"], case["reverse"], case["concat"]
    targets = [(e[0], e[2]) for f in case["files"] for e in f]

    def bad(sig, msg, exp=None, obs=None):
        acc.violation(Violation(sig, msg, case, exp, obs))

    try:
        if case["seed"] is not None:
            np.random.seed(case["seed"])
        if case.get("sizes"):
            import mokapot.parsers.fasta as _fa
            from mc.datasets import Sized
            with Sized(_fa, case["sizes"], SIZE_NAMES):
                mokapot.make_decoys(paths if len(paths) > 1 else paths[0], out, decoy_prefix=prefix,
                                    enzyme=ENZYME, reverse=reverse, concatenate=concat)
        else:
            mokapot.make_decoys(paths if len(paths) > 1 else paths[0], out, decoy_prefix=prefix,
                            enzyme=ENZYME, reverse=reverse, concatenate=concat)
        with open(out, encoding="utf-8") as fh:
            text = fh.read()
        got = read_fasta(text)
        repo = [tuple(_parse_protein(p)) for p in _parse_fasta_files(out)]
    except Exception as e:
        bad(f"decoy-raises:{type(e).__name__}", f"make_decoys / re-reading raised {type(e).__name__}: {e}")
        return None
    finally:
        for p in paths + [out]:
            if os.path.exists(p):
                os.unlink(p)
    if repo != got:
        bad("decoy-reread-mismatch", "repository reader and independent reader disagree on the written file",
            got, repo)
    n = len(targets)
    if len(got) != (2 * n if concat else n):
        bad("decoy-count", f"{len(got)} entries written for {n} targets (concatenate={concat})", None, got)
        return hash(text)
    if concat:
        if got[:n] != targets:
            if got[n:] == targets:
                bad("decoy-order", "targets are not ahead of the decoys", targets, got)
            else:
                bad("decoy-targets-changed", "target entries are not reproduced unchanged and first", targets, got[:n])
            return hash(text)
        got = got[n:]
    for (tn, ts), (dn, ds) in zip(targets, got):
        if dn != prefix + tn:
            bad("decoy-name", "decoy name is not prefix + target name", prefix + tn, dn)
        if len(ds) != len(ts):
            bad("decoy-length", "decoy length differs from its target", ts, ds)
            continue
        acc.count("decoys_differing_from_target" if ds != ts else "decoys_equal_to_target")
        if sorted(ds) != sorted(ts):
            bad("decoy-composition", "decoy residue composition differs from its target", ts, ds)
        if kr_sites(ds) != kr_sites(ts):
            bad("decoy-site-moved", "cleavage sites of target and decoy differ", kr_sites(ts), kr_sites(ds))
        for s, e in peptides(ts):
            if ds[s] != ts[s] or ds[e - 1] != ts[e - 1]:
                bad("decoy-terminus-moved", f"first/last residue of peptide [{s},{e}) not kept in place", ts, ds)
                break
            if reverse and ds[s + 1:e - 1] != ts[s + 1:e - 1][::-1]:
                bad("decoy-not-reversed", f"interior of peptide [{s},{e}) is not exactly reversed", ts, ds)
                break
    return hash(text)


def mk(files, mode, nl=None, prefix="decoy_"):
    reverse, seed, concat = mode
    return {"files": files, "nl": nl or [True] * len(files), "prefix": prefix,
            "reverse": reverse, "seed": seed, "concat": concat}


def seqs(alpha, lmax, lmin=0):
    for n in range(lmin, lmax + 1):
        for t in itertools.product(alpha, repeat=n):
            yield "".join(t)


def cases_of(item):
    fam = item[0]
    if fam == "single":  # every sequence of length L starting with `head`
        _, L, head, modes = item
        for t in itertools.product("ACKR", repeat=L - len(head)):
            for m in modes:
                yield mk([[["t1", "", head + "".join(t), 0]]], m)
    elif fam == "pair":  # two-entry file: first x every second
        _, alpha, lmax, first, modes = item
        for second in seqs(alpha, lmax):
            for m in modes:
                yield mk([[["t1", "", first, 0], ["t2", "", second, 0]]], m)
    elif fam == "twofile":
        _, first, lmax2, lmax3 = item
        nls = list(itertools.product((False, True), repeat=2))
        for second in seqs("ACK", lmax2):
            for nl in nls:
                for m in MODES_LITE:
                    yield mk([[["t1", "", first, 0]], [["t2", "", second, 0]]], m, list(nl))
        if len(first) <= lmax3:
            for b, c in itertools.product(list(seqs("ACK", lmax3)), repeat=2):
                e = [["t1", "", first, 0], ["t2", "", b, 0], ["t3", "", c, 0]]
                for split in (1, 2):
                    for nl in nls:
                        yield mk([e[:split], e[split:]], MODES_LITE[(len(b) + len(c)) % 3], list(nl))
    elif fam == "format":
        _, seq = item
        for name, desc, prefix, nl in itertools.product(
                ("t1", "sp|P12345|ALBU_HUMAN", "orf19_Gr\u00f6\u00dfe", "\u00b5-crystallin_1"),
                ("", "desc", "Serum albumin OS=Homo sapiens >K R", "5'->3' exoribonuclease \u00b5"),
                ("decoy_", "rev_"), (False, True)):
            for m in MODES_LITE:
                yield mk([[[name, desc, seq, 0]]], m, [nl], prefix)
                yield mk([[[name, desc, seq, 0], ["t2", desc, "ACCAK", 0]]], m, [nl], prefix)
    elif fam == "dupname":  # the same accession twice (e.g. a protein that is also in a contaminant file)
        _, first, lmax = item
        for second in seqs("ACK", lmax):
            for m in MODES_LITE:
                yield mk([[["t1", "", first, 0], ["t1", "other form", second, 0]]], m)
                yield mk([[["t1", "", first, 0]], [["t1", "", second, 0], ["t2", "", "ACCAK", 0]]], m)
    elif fam == "wrap":
        _, n, modes = item
        for pat in PATTERNS:
            seq = (pat * (n // len(pat) + 1))[:n]
            for width in (0, 60, 70, 80):
                for m in modes:
                    yield mk([[["t1", "long record", seq, width]]], m)
                    yield mk([[["t1", "", seq, width], ["t2", "", "AACCK", 0]], [["t3", "", seq[::-1], width]]], m)


INTERIOR = "ACDEFGHILMNPQSTVWY"


def history_cases(j):
    """Sequences of calls in ONE process.  Item j uses peptide-interior lengths no other item uses (12+j and 40+j), so
    whatever per-length state an implementation keeps is first touched by the first call of the sequence."""
    def seq(n):
        body = (INTERIOR * (n // len(INTERIOR) + 1))[:n]
        return "M" + body + "K" + "A" + body[::-1][: n] + "R" + "GG"

    a, b = seq(12 + j), seq(40 + j)
    shuffle0, shuffle1, rev = (False, 0, True), (False, 1, False), (True, None, True)
    yield [mk([[["t1", "", a, 0]]], m) for m in (shuffle0, rev, shuffle1, rev)]
    yield [mk([[["t1", "", b, 0], ["t2", "", "ACCAK", 0]]], m) for m in (rev, shuffle0, rev)]


def worker(item):
    acc = Acc()
    d = str(worker_scratch().sub("c18"))
    if item[0] == "history":
        for calls in history_cases(item[1]):
            for step, case in enumerate(calls):
                case = dict(case, history_item=item[1], step=step)
                h = check_case(case, acc, d)
                acc.case(key=hash(json.dumps(case)), nontrivial=True, outcome=h, sample=case if step == 1 and item[1] == 0 else None)
                acc.count("history")
        return acc
    sizes = None
    if item[0] == "sized":
        sizes, item = item[1], item[2]
    for case in cases_of(item):
        if sizes:
            case = dict(case, sizes=sizes)
        nt = nontrivial(case)
        h = check_case(case, acc, d)
        acc.case(key=hash(json.dumps(case)), nontrivial=nt, outcome=h,
                 sample=case if acc.evaluations % 5003 == 1 else None)
        acc.count(item[0])
    return acc


def run(ctx):
    if ctx.quick:
        b = dict(single_full=7, single_lite=8, pair_alpha="ACK", pair_len=5, two_len=3, three_len=1,
                 format_len=3, wrap=[69, 70, 71, 139, 140, 141, 210, 211])
    else:
        b = dict(single_full=9, single_lite=9, pair_alpha="ACKR", pair_len=5, two_len=4, three_len=2,
                 format_len=5, wrap=list(range(60, 216)))
    items = []
    for L in range(0, b["single_lite"] + 1):
        modes = MODES_FULL if L <= b["single_full"] else MODES_LITE
        for head in itertools.product("ACKR", repeat=min(L, 3 if L < 9 else 4)):
            items.append(("single", L, "".join(head), modes))
    for first in seqs(b["pair_alpha"], b["pair_len"]):
        items.append(("pair", b["pair_alpha"], b["pair_len"], first, MODES_LITE))
    for first in seqs("ACK", b["two_len"]):
        items.append(("twofile", first, b["two_len"], b["three_len"]))
    for s in seqs("ACKR", b["format_len"]):
        items.append(("format", s))
    for n in b["wrap"]:
        items.append(("wrap", n, MODES_FULL))
    for first in seqs("ACK", 4 if ctx.quick else 5, 1):
        items.append(("dupname", first, 4 if ctx.quick else 5))
    # every chunk / batch size constant the FASTA module has, set to 1..3 (none on the pinned tree: empty dimension)
    import mokapot.parsers.fasta as _fa
    from mc.datasets import size_constants
    SIZE_NAMES[:] = size_constants(_fa)
    if SIZE_NAMES:
        small = [it for it in items if it[0] in ("twofile", "dupname", "format") or (it[0] == "single" and it[1] <= 4)]
        items += [("sized", v, it) for v in (1, 2, 3) for it in small]
    ctx.info["size_constants"] = list(SIZE_NAMES)
    # call histories in one process (shuffle then reverse and vice versa); first so that the pool's processes are fresh
    items = [("history", j) for j in range(24)] + items
    ctx.pmap(worker, items, chunksize=1)
    ctx.exhaustive = True
    ctx.info["bound"] = b
    ctx.info["explanation"] = (
        f"single-entry files: every ACKR sequence of length <= {b['single_full']} x 18 modes (reverse, "
        f"shuffle seeds 0..7, concatenate on/off), lengths up to {b['single_lite']} x 3 modes; every ordered "
        f"pair over {b['pair_alpha']} up to length {b['pair_len']}; two input files; format variants; "
        f"wrapped records of lengths {b['wrap'][0]}..{b['wrap'][-1]}"
    )


def replay(case):
    acc = Acc()
    with Scratch("c18replay") as s:
        if "history_item" in case:  # replay the whole call sequence up to and including the recorded step
            for calls in history_cases(case["history_item"]):
                if calls[0]["files"] == case["files"]:
                    for step, c in enumerate(calls[: case["step"] + 1]):
                        a = Acc()
                        check_case(dict(c, history_item=case["history_item"], step=step), a, str(s.path))
                    return a.violations
        check_case(case, acc, str(s.path))
    return acc.violations
