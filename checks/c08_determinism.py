"""C08 - fixed seed gives bit-identical results across runs and interpreter sessions (E1 over histories and
configurations; hash seeds enumerated across fresh interpreters).

An *analysis* = brew -> read_fasta -> assign_confidence(proteins=...) on freshly built datasets.  Its digest
(scores, fold membership / model coefficients, every result file byte for byte) must be identical
 - when repeated in the same process (after other analyses have run in between),
 - in fresh interpreters with PYTHONHASHSEED in 0..7,
 - for 1 and 3 workers,
and feeding the returned models back in every order (all k! permutations, k <= 4) must reproduce the scores
exactly.  The CLI entry point is exercised the same way.
"""

from __future__ import annotations

import hashlib
import itertools
import json
import os
import shutil
import subprocess
import sys
from pathlib import Path

import numpy as np
import pandas as pd

from mc.core import Acc, Violation, worker_scratch, exc_signature, VERIF, REPO

PROPERTY = "C08"
SIZE_MODULES = ['mokapot.brew', 'mokapot.confidence', 'mokapot.picked_protein', 'mokapot.dataset']  # see mc.runner._sized_passes
LEVEL = "exploration"
RULE = (
    "case = (seed in {1,2,42}, folds in {2,3,4}, workers in {1,3}, estimator in {Percolator SVM (coefficients), "
    "recording linear learner (fold membership)}, FASTA with decoys | target-only | none, numeric or file-name-led "
    "spectrum key, entry point API | CLI); each "
    "case is executed as: run, interleaved other run, run again (same process), 8 fresh interpreters with "
    "PYTHONHASHSEED 0..7, and all k! orders of the returned models fed back. An evaluation = one comparison of two "
    "executions' digests; non-trivial iff the two executions differ in process, hash seed, worker count, history or "
    "model order; distinct by (case, comparison kind, variant)"
)
ASSUMPTIONS = [
    "bit-identity is demanded for scores, fold assignment, coefficients and result files; read_fasta maps are compared "
    "as sets of group members (the order of names inside a shared-peptide entry is not part of the statement)",
    "each execution builds its datasets afresh; all levels keep both classes",
    "the fixed seed is passed wherever the API takes one (model rng, brew rng, assign_confidence rng); the CLI seeds "
    "everything from --seed",
]

PEPS = ["ACDEFGK", "LMNPQSK", "TVWYACK", "DEFGHIK", "LMNPQTR", "VWYACDK", "EFGHILK", "MNPQSTR", "WYACDEK", "FGHILMK",
        "NPQSTVR", "YACDEFK", "GHILMNK", "PQSTVWR", "ACDEGFK", "ACEDFGK",  # the last two are anagrams of the first
        "LMNPSQK", "LMPNQSK", "TVWAYCK", "TWVYACK"]  # anagrams of the 2nd and 3rd: random decoy matching has choices


PROT_OF = [0, 0, 0, 1, 1, 1, 2, 2, 2, 3, 3, 3, 4, 4, 4, 5, 6, 7, 6, 7]


def decoy_of(p):
    return p[0] + p[1:-1][::-1] + p[-1]


def fasta_text(with_decoys):
    prots = []
    for i in range(5):
        prots.append((f"sp|P{i}|X{i}", "".join(PEPS[3 * i: 3 * i + 3])))
    prots.append(("sp|P5|X5", PEPS[15]))  # anagram peptides live in different proteins
    prots.append(("sp|P6|X6", PEPS[16] + PEPS[18]))
    prots.append(("sp|P7|X7", PEPS[17] + PEPS[19]))
    out = [f">{n} desc\n{s}" for n, s in prots]
    if with_decoys:
        out += [f">decoy_{n} desc\n" + "".join(decoy_of(s[j:j + 7]) for j in range(0, len(s), 7)) for n, s in prots]
    return "\n".join(out) + "\n"


def table():
    rows = []
    r = 0
    for i, pep in enumerate(PEPS):
        for j in range(4):  # replicate PSMs of every peptide (different spectra, some spectra shared by target and decoy)
            for is_t in (True, False):
                p = pep if is_t else decoy_of(pep)
                # proteins P0..P2 are present (high-scoring targets); P3..P5 are absent, so that their target/decoy
                # pairs are won by either side and every level (proteins included) keeps both classes
                cls = (("H" if (i + j) % 4 != 3 else "L") if i < 9 else "L") if is_t else "D"
                if not is_t and i in (12, 13) and j == 0:
                    cls = "M"  # a decoy scoring clearly above its (absent) target: this protein pair is won by the decoy
                key = {"H": 100.0, "D": 10.0, "L": 9.905, "M": 40.0}[cls] + r * 0.01
                rows.append(dict(SpecId=f"s{r}", Label=1 if is_t else -1, ScanNr=100 + r // 2 + (7 if j == 1 else 0), ExpMass=700.5 + i,
                                 f_key=round(key, 3), f2=1.0 + float((r * 7919) % 101) / 500.0, f3=float((r * 31) % 17) / 10.0,
                                 Peptide=f"K.{p}.A", Proteins=("" if is_t else "decoy_") + f"sp|P{PROT_OF[i]}|X{PROT_OF[i]}"))
                r += 1
    # sibling PSMs (a modified form of the same sequence): same spectrum, identical features (hence exactly equal scores), another peptide string - which
    # of the two is reported is a tie-break that must not depend on the worker count, the process or the hash seed
    df = pd.DataFrame(rows)
    sib = df.iloc[[0, 8, 17, 40, 41, 77]].copy()
    sib["SpecId"] = [f"sib{i}" for i in range(len(sib))]
    sib["Peptide"] = [p[:4] + "[+16]" + p[4:] for p in sib["Peptide"]]  # modified form: same stripped sequence, other peptide
    return pd.concat([df, sib]).reset_index(drop=True)


def digest_files(d):
    out = {}
    for p in sorted(Path(d).iterdir()):
        if p.is_file():
            out[p.name] = hashlib.sha1(p.read_bytes()).hexdigest()
    return out


def analysis(case, work, models_in=None, proteins=None):
    """One complete analysis; returns a JSON-able digest."""
    import mokapot
    from mokapot.confidence import assign_confidence
    from mokapot.model import PercolatorModel
    from mc.datasets import make_dataset, set_chunks, DEFAULT_CHUNKS
    from mc.recorders import make_model, score_log

    set_chunks(**DEFAULT_CHUNKS)
    work = Path(work)
    shutil.rmtree(work, ignore_errors=True)
    work.mkdir(parents=True)
    df = table()
    spectrum = ["ScanNr", "ExpMass"]
    if case.get("key") == "file":
        # a string-valued column leads the spectrum key (the optional filename column of a PIN file)
        df.insert(3, "filename", [f"run{'AB'[(i // 2) % 2]}.mzML" for i in range(len(df))])  # target+decoy of a pair share it
        spectrum = ["filename", "ScanNr", "ExpMass"]
    seed = case["seed"]
    if case.get("cli"):
        import mokapot.mokapot as cli

        pin = work / "in.pin"
        df.to_csv(pin, sep="\t", index=False)
        fa = work / "db.fasta"
        fa.write_text(fasta_text(True))
        out = work / "out"
        args = [str(pin), "--dest_dir", str(out), "--seed", str(seed), "--folds", str(case["folds"]), "--max_workers", str(case["workers"]),
                "--train_fdr", "0.2", "--test_fdr", "0.2", "--max_iter", "2", "--verbosity", "0", "--keep_decoys", "--proteins", str(fa),
                "--min_length", "6", "--missed_cleavages", "0", "--save_models"]
        cli.main(args)
        import logging

        logging.disable(logging.CRITICAL)
        files = digest_files(out)
        models = {k: v for k, v in files.items() if k.endswith(".pkl")}
        coefs = []
        for k in sorted(models):
            m = mokapot.load_model(out / k)
            if hasattr(m.estimator, "coef_"):
                coefs.append([np.asarray(m.estimator.coef_).ravel().tolist(), np.asarray(m.estimator.intercept_).ravel().tolist(), m.fold])
            else:
                coefs.append(["untrained", m.fold])
        return {"files": {k: v for k, v in files.items() if not k.endswith(".pkl")}, "coefs": coefs}
    ds = make_dataset(df, work / "in.pin", features=["f_key", "f2", "f3"], spectrum=spectrum)
    if models_in is not None:
        model = models_in
    elif case["est"] == "perc":
        model = PercolatorModel(train_fdr=0.2, max_iter=2, rng=seed)
    else:
        model = make_model("linear", first_only=True, train_fdr=0.2, max_iter=2, rng=seed)
    psms, models, scores, descs = mokapot.brew([ds], model=model, test_fdr=0.2, folds=case["folds"], max_workers=case["workers"], rng=seed,
                                               **({"subset_max_train": case["cap"]} if case.get("cap") else {}),
                                               **({"ensemble": True} if case.get("ensemble") else {}))
    dig = {"scores": hashlib.sha1(np.ascontiguousarray(np.asarray(scores[0], dtype=float)).tobytes()).hexdigest(),
           "descs": [bool(d) for d in descs], "trained": [bool(m.is_trained) for m in models]}
    if case["est"] == "perc":
        dig["coefs"] = [[np.asarray(m.estimator.coef_).ravel().tolist(), np.asarray(m.estimator.intercept_).ravel().tolist(), m.fold]
                        if m.is_trained else None for m in models]
    else:
        dig["folds"] = [sorted(set(k for e in score_log(m, "predict") for k in e[2])) for m in models]
        dig["fit_rows"] = [[list(e[2]) for e in m.estimator.log_ if e[0] == "fit"] for m in models]
    if models_in is None and case.get("fasta", "none") != "none":
        fa = work / "db.fasta"
        fa.write_text(fasta_text(case["fasta"] == "decoys"))
        if proteins is None:
            proteins = mokapot.read_fasta(fa, missed_cleavages=0, min_length=6)
        dig["_proteins"] = proteins
        dig["fasta"] = {
            "peptide_map": sorted((k, tuple(sorted(v.split(", ")))) for k, v in proteins.peptide_map.items()),
            "shared": sorted((k, tuple(sorted(tuple(sorted(g.split(", "))) for g in v.split("; ")))) for k, v in proteins.shared_peptides.items()),
            "protein_map": sorted(proteins.protein_map.items()),
        }
        out = work / "out"
        out.mkdir()
        assign_confidence(psms, max_workers=case["workers"], scores=scores, descs=descs, dest_dir=out, prefixes=[None], decoys=True,
                          proteins=proteins, rng=seed, eval_fdr=0.2)
        dig["files"] = digest_files(out)
    elif models_in is None:
        out = work / "out"
        out.mkdir()
        assign_confidence(psms, max_workers=case["workers"], scores=scores, descs=descs, dest_dir=out, prefixes=[None], decoys=True,
                          rng=seed, eval_fdr=0.2)
        dig["files"] = digest_files(out)
    dig["_models"] = models
    dig["_scores"] = np.asarray(scores[0], dtype=float)
    return dig


def safe_analysis(case, work, models_in=None, proteins=None):
    """analysis(), but one of mokapot's explicit refusals becomes part of the digest (it must then be the same
    refusal in every variant); crashes propagate."""
    from mc.core import classify_exception

    try:
        return analysis(case, work, models_in, proteins)
    except Exception as e:
        if classify_exception(e)[0] != "explicit_error":
            raise
        # type and message only: with several workers joblib re-raises from another frame
        return {"explicit_error": f"{type(e).__name__}: {str(e)[:200]}", "trained": [False], "scores": "", "_models": [], "_scores": np.zeros(0)}


def public(d):
    return json.loads(json.dumps({k: v for k, v in d.items() if not k.startswith("_")}, sort_keys=True, default=str))


def first_diff(a, b, path=""):
    if type(a) != type(b):
        return f"{path}: type {type(a).__name__} vs {type(b).__name__}"
    if isinstance(a, dict):
        for k in sorted(set(a) | set(b)):
            if k not in a or k not in b:
                return f"{path}/{k}: present in only one execution"
            d = first_diff(a[k], b[k], f"{path}/{k}")
            if d:
                return d
        return None
    if isinstance(a, list):
        if len(a) != len(b):
            return f"{path}: length {len(a)} vs {len(b)}"
        for i, (x, y) in enumerate(zip(a, b)):
            d = first_diff(x, y, f"{path}[{i}]")
            if d:
                return d
        return None
    return None if a == b else f"{path}: {a!r} vs {b!r}"


def child_run(case, hashseed, work):
    env = dict(os.environ, PYTHONHASHSEED=str(hashseed), PYTHONPATH=str(VERIF), VERIF_REEXEC="1")
    r = subprocess.run([sys.executable, "-m", "checks.c08_determinism", "--child", json.dumps(case), str(work)],
                       capture_output=True, text=True, env=env, cwd=str(VERIF), timeout=600)
    for line in r.stdout.splitlines():
        if line.startswith("DIGEST "):
            return json.loads(line[7:])
    raise RuntimeError(f"child failed rc={r.returncode}: {r.stderr[-600:]}")


def check_case(case, acc, hashseeds=(0, 1, 2, 3, 4, 5, 6, 7)):
    work = worker_scratch().sub()
    sigs = set()

    def add(sig, msg, variant):
        if sig not in sigs:
            sigs.add(sig)
            acc.violation(Violation(sig, msg, dict(case, variant=variant)))

    def cmp(kind, ref, got, variant):
        d = first_diff(public(ref), public(got))
        part = (d or "").split("/")[1].split("[")[0].split(":")[0] if d else ""
        acc.case(key=(repr(sorted(case.items())), kind, repr(variant)), nontrivial=True, outcome=hash(json.dumps(public(got), sort_keys=True)),
                 cls=kind, sample={"case": case, "comparison": kind, "variant": variant} if acc.evaluations % 23 == 0 else None)
        if d:
            add(f"{kind}-changes-{part or 'result'}", f"{kind} ({variant}): {d}", variant)

    try:
        try:
            ref = safe_analysis(case, work / "a")
        except Exception as e:
            add("analysis-raises:" + exc_signature(e), f"{type(e).__name__}: {e}", "reference")
            return
        # history: another analysis in between, then the same one again in this process
        other = dict(case, seed=case["seed"] + 5, folds=2 if case["folds"] != 2 else 3)
        try:
            analysis(other, work / "o")
        except Exception:
            pass
        again = safe_analysis(case, work / "b")
        cmp("same-process-repeat", ref, again, "after-another-analysis")
        # one Proteins object (read_fasta result) re-used for several analyses in this process
        if not case.get("cli") and case.get("fasta", "none") != "none":
            shared = safe_analysis(other, work / "s0").get("_proteins")
            if shared is not None:
                got = safe_analysis(case, work / "s1", proteins=shared)
                g2 = dict(got)
                g2.pop("fasta", None)
                r2 = dict(ref)
                r2.pop("fasta", None)
                cmp("shared-proteins-object", r2, g2, "proteins object used by an earlier analysis with another seed")
        # worker count
        if not case.get("cli"):
            w = safe_analysis(dict(case, workers=3 if case["workers"] == 1 else 1), work / "w")
            cmp("worker-count", ref, w, {"workers": 3 if case["workers"] == 1 else 1})
        # fresh interpreters
        for hs in hashseeds:
            try:
                got = child_run(case, hs, work / f"c{hs}")
            except Exception as e:
                add("child-fails", str(e)[:400], {"hashseed": hs})
                continue
            cmp("fresh-interpreter", ref, got, {"PYTHONHASHSEED": hs})
        # feed the returned models back in every order
        if not case.get("cli") and all(ref["trained"]) and case["folds"] <= 4:
            for perm in itertools.permutations(range(case["folds"])):
                fed = analysis(case, work / "f", models_in=[ref["_models"][i] for i in perm])
                acc.case(key=(repr(sorted(case.items())), "models-fed-back", perm), nontrivial=perm != tuple(sorted(perm)),
                         outcome=hash(fed["scores"]), cls="models-fed-back")
                if fed["scores"] != ref["scores"]:
                    add("models-fed-back-change-scores", f"feeding the trained models back in order {perm} does not reproduce the scores "
                        f"(max abs diff {np.max(np.abs(fed['_scores'] - ref['_scores']))})", {"model_order": list(perm)})
    finally:
        shutil.rmtree(work, ignore_errors=True)


# ---------------------------------------------------------------------------------------------
# E2: the worker count / thread timing clause decided on every schedule instead of on one free-running timing: the digest
# (scores, fold membership, the ORDER in which every fit call received its rows - it follows the model's generator -,
# result files) of a seeded analysis with 3 workers must be the sequential digest under every schedule of every pool
# invocation with <= 1 / 2 preemptions
# ---------------------------------------------------------------------------------------------
def e2_body(case, work):
    c = dict(case, workers=case.get("e2_workers", 3))
    c.pop("e2_workers", None)

    def body():
        d = analysis(c, Path(work) / "e2run")
        return json.dumps(public(d), sort_keys=True, default=str)

    return body


E2_CASES = [dict(seed=2, folds=3, est="rec", fasta="none"), dict(seed=42, folds=4, est="rec", fasta="none", cap=60)]


def worker(case):
    acc = Acc()
    check_case(case, acc, hashseeds=tuple(case.pop("_hashseeds", range(8))))
    return acc


def run(ctx):
    cases = []
    seeds = (1, 2, 42)
    if ctx.quick:
        grid = [(s, f, 1, e, fa) for s, f, e, fa in [(1, 3, "perc", "decoys"), (2, 2, "rec", "target-only"), (42, 4, "rec", "decoys"),
                                                      (1, 2, "perc", "none"), (2, 3, "rec", "decoys"), (42, 3, "perc", "target-only")]]
        hs = (0, 1, 2, 3)
    else:
        grid = [(s, f, w, e, fa) for s in seeds for f in (2, 3, 4) for w in (1, 3) for e in ("perc", "rec")
                for fa in ("decoys", "target-only") if not (e == "perc" and w == 3 and fa == "target-only")]
        hs = tuple(range(8))
    for s, f, w, e, fa in grid:
        cases.append(dict(seed=s, folds=f, workers=w, est=e, fasta=fa, _hashseeds=list(hs)))
    # training on a random subset of every training split (the draw must come from the seeded generator)
    for s, f, e in (((2, 3, "rec"),) if ctx.quick else ((1, 3, "rec"), (2, 2, "rec"), (42, 4, "perc"))):
        cases.append(dict(seed=s, folds=f, workers=1, est=e, fasta="none", cap=60, _hashseeds=list(hs)))
    # every PSM scored by the average of all fold models
    for s, f, e in (((1, 3, "rec"),) if ctx.quick else ((1, 3, "rec"), (2, 2, "perc"))):
        cases.append(dict(seed=s, folds=f, workers=1, est=e, fasta="none", ensemble=True, _hashseeds=list(hs)))
    # spectrum key led by a string column (file name)
    for s, f, e in (((1, 3, "perc"),) if ctx.quick else ((1, 3, "perc"), (2, 4, "perc"), (42, 4, "rec"))):
        cases.append(dict(seed=s, folds=f, workers=1, est=e, fasta="none", key="file", _hashseeds=list(hs)))
    for s in ((1,) if ctx.quick else seeds):
        cases.append(dict(seed=s, folds=3, workers=1, cli=True, _hashseeds=list(hs)))
        cases.append(dict(seed=s, folds=3, workers=1, cli=True, key="file", _hashseeds=list(hs)))
    ctx.pmap(worker, cases)
    from mc import e2drv

    infos = e2drv.run_all(ctx, "checks.c08_determinism", E2_CASES[: 1 if ctx.quick else 2],
                          lambda focus, quick=ctx.quick: (1, "task") if quick else (2, "task"))
    ex = ctx.acc.extra
    ctx.info["states"] = ex.get("e2_executions", 0)
    ctx.info["transitions"] = ex.get("e2_transitions", 0)
    ctx.info["traces_validated_against_impl"] = ex.get("e2_executions", 0)
    ctx.info["e2"] = infos
    ctx.exhaustive = True
    ctx.info["bound"] = {"cases": len(cases), "hash_seeds": list(hs), "e2_preemption_bound": 1 if ctx.quick else 2}


def replay(case):
    acc = Acc()
    if "e2" in case:
        from mc import e2drv

        differs, reproducible, exc = e2drv.replay("checks.c08_determinism", case)
        if not reproducible:
            acc.violation(Violation("harness-nondeterministic-replay", "same schedule, different observations", case))
        elif differs:
            acc.violation(Violation("schedule-changes-result", "replayed schedule differs from sequential", case))
        return acc.violations
    case = {k: v for k, v in case.items() if k != "variant"}
    check_case(case, acc)
    return acc.violations


if __name__ == "__main__":
    if len(sys.argv) >= 4 and sys.argv[1] == "--child":
        import warnings
        import logging

        warnings.filterwarnings("ignore")
        logging.disable(logging.CRITICAL)
        if str(REPO) != "/repo":
            sys.path.insert(0, str(REPO))
        c = json.loads(sys.argv[2])
        d = safe_analysis(c, sys.argv[3])
        print("DIGEST " + json.dumps(public(d), sort_keys=True, default=str))
