"""C19 - PIN -> rectangular TSV is lossless, order-preserving, idempotent; validity predicate (E1).

Space: PIN texts rendered from every spec (mc/ref/pin2tsv.py): 0..F feature columns x every position of
the Proteins column (first .. last) x 1..R PSM rows x 0..K proteins per row (all combinations; a row
with 0 proteins is a short line and is used for the validity predicate only) x DefaultDirection line
none/short/full-width x trailing newline yes/no x protein separator ":" / ";".
Oracle: what the generator wrote (expected_lines) = text-level reference converter; is_valid_tsv(output);
conversion of the output is the identity; is_valid_tsv(text) <=> reference predicate; and the CLI verify
step of mokapot/mokapot.py (is_valid_tsv -> pin_to_valid_tsv -> move) run on a real file up to the
(stubbed) read_pin call leaves exactly the expected table.
"""

from __future__ import annotations

import io
import itertools
import os
import sys
import tempfile
from pathlib import Path

from mc.core import Acc, Violation, scratch_root
from mc.ref.pin2tsv import render_pin, expected_lines, text_lines, ref_convert, ref_is_valid, is_dd, TAB

PROPERTY = "C19"
SIZE_MODULES = ['mokapot.parsers.pin_to_tsv']  # see mc.runner._sized_passes
LEVEL = "exploration"
RULE = (
    "cases = (feature count, Proteins column index, protein count per row, DefaultDirection none/short/full, "
    "trailing newline, protein separator), every combination within the bounds, rows fewest first; a case is "
    "non-trivial iff the text is not already a valid table (some row has != 1 protein or a DefaultDirection line "
    "is present); distinct by the spec; outcome = hash of (is_valid_tsv(text), converted text)"
)
ASSUMPTIONS = [
    "fields are non-empty and free of tab / CR / LF; blanks and the exotic separators \\x0b \\x0c \\x1c-\\x1e \\x85 "
    "U+2028 U+2029 occur only INSIDE a field (family `ws`), never at the start or end of a line, where the "
    "converter's strip() would legitimately remove them; the header contains the column name Proteins exactly once",
    "a DefaultDirection line, when present, is the second line (that is where the format allows it)",
    "texts have a header and at least one PSM line; rows lacking the protein field (0 proteins) are outside the "
    "converter's domain and only the validity predicate is checked on them",
    "the output is compared line by line; whether it ends with a newline is not prescribed by the statement",
    "the CLI verify step is run with read_pin replaced by a stub that stops main(); append mode of the "
    "temporary file and leftovers belong to C09",
]

import locale

_ENC = locale.getpreferredencoding(False)  # mokapot opens the file with the default encoding
SEPS = (":", ";")
WS_CHARS = (" ", "\x0b", "\x0c", "\x1c", "\x1d", "\x1e", "\x85", "\u2028", "\u2029")


class _Stop(BaseException):
    pass


def _convert(text, sep):
    from mokapot.parsers.pin_to_tsv import pin_to_valid_tsv

    out = io.StringIO()
    pin_to_valid_tsv(io.StringIO(text), out, sep_protein=sep)
    return out.getvalue()


def _cli_verify(text, workdir):
    """Run mokapot.mokapot.main on a real file until it reaches read_pin; return the file afterwards."""
    mm = sys.modules.get("mokapot.mokapot") or __import__("importlib").import_module("mokapot.mokapot")
    pin = Path(workdir) / "in.pin"
    pin.write_bytes(text.encode(_ENC))  # exactly these characters, no newline translation
    tmp = Path(str(pin) + ".tsv")
    if tmp.exists():
        tmp.unlink()

    def stop(*a, **k):
        raise _Stop()

    orig, mm.read_pin = mm.read_pin, stop
    try:
        mm.main([str(pin), "--dest_dir", str(workdir)])
        raise RuntimeError("main() returned without reaching read_pin")
    except _Stop:
        pass
    finally:
        mm.read_pin = orig
    return pin.read_bytes().decode(_ENC)


def _encodable(text):
    try:
        return text.encode(_ENC).decode(_ENC) == text
    except UnicodeError:
        return False


def _diagnose(want, got_lines):
    """Specific signature for a wrong conversion result."""
    if not got_lines or got_lines[0] != want[0]:
        return "tsv-header-changed"
    if any(is_dd(line) for line in got_lines[1:]):
        return "tsv-defaultdirection-kept"
    if len(got_lines) != len(want):
        return "tsv-line-count"
    k = want[0].split(TAB).index("Proteins")
    for w, g in zip(want, got_lines):
        if w != g:
            wf, gf = w.split(TAB), g.split(TAB)
            if len(wf) != len(gf):
                return "tsv-not-rectangular"
            if wf[k] != gf[k]:
                return "tsv-proteins-wrong"
            return "tsv-field-changed"
    return "tsv-output-differs"


def check_case(case, acc, workdir=None):
    """One spec: validity predicate, conversion, validity of the output, idempotence, CLI verify step."""
    from mokapot.parsers.pin_to_tsv import is_valid_tsv

    text = render_pin(case)
    sep = case["sep"]
    in_domain = min(case["rows"]) >= 1
    want_valid = ref_is_valid(text)
    if want_valid != (case["dd"] == "none" and set(case["rows"]) == {1}):
        acc.violation(Violation("harness-reference-disagrees", "ref_is_valid contradicts the generator", case))
    try:
        valid = bool(is_valid_tsv(io.StringIO(text)))
    except Exception as e:
        acc.violation(Violation(f"isvalid-raises:{type(e).__name__}", f"is_valid_tsv raised {e!r}", case))
        valid = None
    if valid is not None and valid != want_valid:
        acc.violation(Violation("isvalid-accepts-invalid" if valid else "isvalid-rejects-valid",
                                f"is_valid_tsv returned {valid} for a text that is "
                                f"{'valid' if want_valid else 'not valid'}", case, want_valid, valid))
    out = None
    if in_domain:
        want = expected_lines(case, sep)
        if ref_convert(text, sep) != want:
            acc.violation(Violation("harness-reference-disagrees", "ref_convert contradicts the generator", case))
        try:
            out = _convert(text, sep)
        except Exception as e:
            acc.violation(Violation(f"tsv-convert-raises:{type(e).__name__}", f"pin_to_valid_tsv raised {e!r}", case))
        if out is not None:
            acc.count("conversions")
            if text_lines(out) != want:
                acc.violation(Violation(_diagnose(want, text_lines(out)), "converted table differs from the expected one",
                                        case, want, text_lines(out)))
            else:
                try:
                    if not is_valid_tsv(io.StringIO(out)):
                        acc.violation(Violation("tsv-output-not-valid", "is_valid_tsv rejects the converter's output",
                                                case, True, False))
                    again = _convert(out, sep)
                    if again != out:
                        acc.violation(Violation("tsv-not-idempotent", "converting the output again changes it", case,
                                                out, again))
                except Exception as e:
                    acc.violation(Violation(f"tsv-reconvert-raises:{type(e).__name__}",
                                            f"re-validating/re-converting the output raised {e!r}", case))
        if sep == ":" and workdir is not None and _encodable(text):
            acc.count("cli_verify_runs")
            try:
                final = _cli_verify(text, workdir)
            except Exception as e:
                acc.violation(Violation(f"cli-verify-raises:{type(e).__name__}", f"verify step raised {e!r}", case))
            else:
                if (final != text) if want_valid else (text_lines(final) != want):
                    acc.violation(Violation("cli-verify-wrong", "file after the CLI verify step is not the expected table",
                                            case, text if want_valid else want, final))
    acc.case(key=hash((case["nfeat"], case["pidx"], tuple(case["rows"]), case["dd"], case["nl"], sep, case.get("ws", ""))),
             nontrivial=not want_valid, outcome=hash((valid, out)),
             cls="valid_input" if want_valid else ("convertible" if in_domain else "short_row"),
             sample=dict(case, text=text, output=out) if acc.evaluations % 997 == 5 else None)


def worker(item):
    nfeat, pidx, dd, nl, max_rows, max_prot, ws = item
    acc = Acc()
    with tempfile.TemporaryDirectory(prefix="c19_", dir=os.environ.get("VERIF_SCRATCH") or scratch_root()) as wd:
        for nrows in range(1, max_rows + 1):
            for rows in itertools.product(range(0, max_prot + 1), repeat=nrows):
                for sep in (SEPS if min(rows) >= 1 else SEPS[:1]):  # separator matters for conversions only
                    check_case(dict(nfeat=nfeat, pidx=pidx, rows=list(rows), dd=dd, nl=nl, sep=sep, ws=ws), acc, wd)
    return acc


def run(ctx):
    max_feat, max_rows, max_prot = (2, 3, 3) if ctx.quick else (3, 5, 4)
    items = [(nfeat, pidx, dd, nl, max_rows, max_prot, "")
             for nfeat in range(max_feat + 1) for pidx in range(0, nfeat + 5)
             for dd in ("none", "short", "full") for nl in (False, True)]
    # family `ws`: a blank or an exotic separator character inside fields (smaller row bound)
    items += [(nfeat, pidx, dd, nl, 2, min(max_prot, 3), ws)
              for ws in WS_CHARS for nfeat in range(min(max_feat, 2) + 1) for pidx in range(0, nfeat + 5)
              for dd in ("none", "short", "full") for nl in (False, True)]
    ctx.pmap(worker, items, chunksize=1)
    ctx.exhaustive = True
    ctx.info["bound"] = {"max_feature_columns": max_feat, "max_rows": max_rows, "max_proteins_per_row": max_prot,
                         "protein_column_positions": "all (0 .. last)", "default_direction": ["none", "short", "full"],
                         "trailing_newline": [False, True], "protein_separators": list(SEPS),
                         "characters_inside_fields": [repr(c) for c in WS_CHARS] + ["(<= 2 rows for these)"]}
    ctx.info["explanation"] = (
        f"every PIN text with <= {max_feat} feature columns, <= {max_rows} rows, 0..{max_prot} proteins per row, "
        "every protein column position, DefaultDirection none/short/full, with/without trailing newline"
    )


def replay(case):
    acc = Acc()
    with tempfile.TemporaryDirectory(prefix="c19_", dir=scratch_root()) as wd:
        check_case(case, acc, wd)
    return acc.violations
