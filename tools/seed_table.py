#!/usr/bin/env python3
"""Regenerate DESIGN.md section 11.5 from seeded/*/meta.json."""
import glob, json
from pathlib import Path
V = Path(__file__).resolve().parent.parent
ms = [json.load(open(f)) for f in sorted(glob.glob(str(V / "seeded" / "*" / "meta.json")))]
n = len(ms); caught0 = sum(1 for m in ms if m.get("first_result", "").startswith("caught")); det = sum(1 for m in ms if m.get("detected"))
out = ["### 11.5 Independently seeded property-breaking changes (`seeded/<name>/`)", "",
       f"{n} changes written by fresh sub-agents that saw only the property text and their own worktree (wave 1: two per claimed",
       "property; wave 2: concurrency defects, crash-point / history defects, hidden state; wave 3: numeric range / encoding /",
       "configuration corners; waves 4, 5 and 6: one more per property each, asked for a code site and trigger unlike all earlier ones), each confirmed here: the patch applies",
       "to /repo HEAD, the pinned baseline still passes 73/73, the agent's demo flips from `PROPERTY HOLDS` to `PROPERTY VIOLATED`,",
       "and `VERIF_REPO=<worktree> ./check <ID> --tier quick` is run (`tools/seed_verify.py`).",
       f"{caught0} of the {n} were caught by the checks as they were when the change arrived; every miss led to a strengthening of the",
       f"check (last column); one is documented as not claimed (C20w5_1: scan number of a multi-scan query is not defined by the",
       f"statement; C19w3_1, long a documented miss, is caught since the `ws` family of C19). Now {det} of {n} are reported by the quick tier.", "",
       "| change | what it needs to manifest | caught by (quick tier): first signatures | first result |", "|---|---|---|---|"]
for m in ms:
    d = "; ".join(f"{c}: {', '.join(v['signatures'][:2])}" for c, v in m.get("detected_by", {}).items() if v["rc"] == 1) or "NOT DETECTED"
    out.append(f"| {m['name']} | {m.get('needs','')} | {d[:160]} | {m.get('first_result','')} |")
out += ["", "Genuine defects found on the unchanged tree by checks strengthened this way: F18 (single-row predict_proba, C02 with",
        "prediction-chunk deviations) and F19 (decoy matching depends on the hash seed, C08 with more anagram peptides).", ""]
p = V / "DESIGN.md"; s = p.read_text()
if "### 11.5" in s: s = s[:s.index("### 11.5")]
p.write_text(s.rstrip("\n") + "\n\n" + "\n".join(out))
print(n, caught0, det)
