#!/bin/bash
# Offline setup: create output directories and warm the numba cache. Nothing is downloaded.
cd "$(dirname "$(readlink -f "$0")")/.." || exit 1
mkdir -p evidence replays .numba_cache
export PYTHONPATH="$PWD" NUMBA_CACHE_DIR="$PWD/.numba_cache" PYTHONWARNINGS=ignore
/venv/bin/python - <<'P'
import numpy as np, mokapot
from mokapot.qvalues import tdc
tdc(np.array([2.0, 1.0]), np.array([True, False]))
print("setup ok:", mokapot.__file__)
P
