#!/usr/bin/env python3
"""Confirm one independently written property-breaking change and run our checks against it.

usage: tools/seed_verify.py /tmp/seed_out/C03_1 [--tier quick|thorough] [--checks C03,C05] [--keep]

Steps (all in a scratch worktree outside /repo and /verif, removed afterwards):
  1. git apply patch.diff on a clean checkout of /repo HEAD
  2. pinned baseline (73 tests) must pass with the change
  3. demo.py must exit 0 without the change and non-zero with it
  4. ./check <ID> with VERIF_REPO=<worktree> must report a VIOLATION (rc 1)
Writes /verif/seeded/<name>/{patch.diff, demo.py, notes.md, meta.json}.
"""
import json
import os
import shutil
import subprocess
import sys
from pathlib import Path

V = Path(__file__).resolve().parent.parent


def sh(*a, **k):
    return subprocess.run(list(map(str, a)), text=True, capture_output=True, **k)


def main():
    src = Path(sys.argv[1])
    name = src.name
    pid = name[:3]
    tier = sys.argv[sys.argv.index("--tier") + 1] if "--tier" in sys.argv else "quick"
    checks = sys.argv[sys.argv.index("--checks") + 1].split(",") if "--checks" in sys.argv else [pid]
    wt = Path(f"/tmp/sv_{name}")
    sh("git", "-C", "/repo", "worktree", "remove", "--force", wt)
    r = sh("git", "-C", "/repo", "worktree", "add", "--detach", wt, "HEAD")
    assert r.returncode == 0, r.stderr
    meta = {"property": pid, "name": name, "repo_head": sh("git", "-C", "/repo", "rev-parse", "--short", "HEAD").stdout.strip(), "ran": []}
    try:
        env = dict(os.environ, PYTHONPATH=str(wt), PYTHONWARNINGS="ignore")
        demo = src / "demo.py"
        r0 = sh("/venv/bin/python", demo, env=env, cwd=wt, timeout=1800)
        meta["demo_without_change"] = {"rc": r0.returncode, "tail": (r0.stdout + r0.stderr)[-300:]}
        r = sh("git", "-C", wt, "apply", src / "patch.diff")
        meta["patch_applies"] = r.returncode == 0
        if r.returncode != 0:
            meta["error"] = r.stderr[-500:]
            return finish(src, name, meta)
        r1 = sh("/venv/bin/python", demo, env=env, cwd=wt, timeout=1800)
        meta["demo_with_change"] = {"rc": r1.returncode, "tail": (r1.stdout + r1.stderr)[-300:]}
        rb = sh(V / "tools" / "baseline.sh", wt, timeout=3600)
        meta["baseline"] = rb.stdout.strip().splitlines()[:4]
        meta["baseline_ok"] = rb.returncode == 0
        meta["confirmed"] = bool(meta["baseline_ok"] and r0.returncode == 0 and r1.returncode != 0)
        meta["detected_by"] = {}
        for c in checks:
            e2 = dict(os.environ, VERIF_REPO=str(wt))
            rc = sh(V / "check", c, "--tier", tier, env=e2, cwd=V, timeout=7200)
            sigs = [l.strip().split(": ")[0] for l in rc.stdout.splitlines() if l.startswith("  ")]
            viol = [l for l in rc.stdout.splitlines() if l.startswith("VIOLATION")]
            meta["detected_by"][c] = {"tier": tier, "rc": rc.returncode, "violations": len(viol), "signatures": sorted(set(sigs))[:8]}
            meta["ran"].append(f"VERIF_REPO={wt} ./check {c} --tier {tier}")
            if rc.returncode not in (0, 1):
                meta["detected_by"][c]["stderr"] = rc.stderr[-400:]
        meta["detected"] = any(v["rc"] == 1 and v["violations"] > 0 for v in meta["detected_by"].values())
    finally:
        sh("git", "-C", "/repo", "worktree", "remove", "--force", wt)
        # replay files written by runs against the mutated tree are not evidence about /repo
        for c in checks:
            shutil.rmtree(V / "replays" / c, ignore_errors=True)
    return finish(src, name, meta)


def finish(src, name, meta):
    dst = V / "seeded" / name
    dst.mkdir(parents=True, exist_ok=True)
    for f in ("patch.diff", "demo.py", "notes.md"):
        if (src / f).exists():
            shutil.copy(src / f, dst / f)
    old = {}
    if (dst / "meta.json").exists():
        old = json.loads((dst / "meta.json").read_text())
        for k in ("needs", "first_result", "breaks_property"):
            if k in old:
                meta[k] = old[k]
        # keep earlier detection records of other tiers
        for c, v in old.get("detected_by", {}).items():
            meta.setdefault("history", []).append({c: v})
    (dst / "meta.json").write_text(json.dumps(meta, indent=1))
    print(json.dumps({k: meta.get(k) for k in ("name", "confirmed", "baseline_ok", "detected", "detected_by")}, indent=1))


if __name__ == "__main__":
    main()
