#!/bin/bash
# Re-run every seeded change against the current checks (3 at a time). usage: tools/seed_regress.sh [pattern]
cd "$(dirname "$(readlink -f "$0")")/.." || exit 1
pat=${1:-.}
ls seeded | grep -E "$pat" | xargs -P ${SEED_PAR:-3} -I{} bash -c '
  d={}; extra=""
  case $d in C19w3_2) extra="--checks C19,C09";; C15w3_1) extra="--checks C15,C08";; esac
  src=/tmp/seed_regress_src/$d; mkdir -p $src; cp seeded/$d/patch.diff seeded/$d/demo.py $src/ 2>/dev/null; cp seeded/$d/notes.md $src/ 2>/dev/null
  timeout 3600 python3 tools/seed_verify.py $src $extra | python3 -c "
import json,sys
d=json.load(sys.stdin); print(d[\"name\"],\"confirmed\",d[\"confirmed\"],\"detected\",d[\"detected\"],{k:(v[\"rc\"],v[\"signatures\"][:2]) for k,v in (d[\"detected_by\"] or {}).items()})"
'
