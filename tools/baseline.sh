#!/bin/bash
# Run the repository's pinned baseline (guard off) and compare with BASELINE.json's stable_pass list.
# usage: tools/baseline.sh [repo_dir]
REPO=${1:-/repo}
OUT=$(mktemp /tmp/baseline_XXXX.xml)
cd "$REPO" && env -u MOKAPOT_VERIF /venv/bin/python -m pytest -ra -q -p no:cacheprovider --timeout=900 --continue-on-collection-errors --junitxml="$OUT" >/dev/null 2>&1
/venv/bin/python - "$OUT" <<'P'
import json, sys, xml.etree.ElementTree as ET
base = json.load(open("/root/.vp/BASELINE.json"))
want = set(base["stable_pass"])
ok = set()
for tc in ET.parse(sys.argv[1]).getroot().iter("testcase"):
    name = f"{tc.get('classname')}::{tc.get('name')}"
    if not any(c.tag in ("failure", "error", "skipped") for c in tc):
        ok.add(name)
missing = sorted(want - ok)
print(f"baseline: {len(want & ok)}/{len(want)} stable tests pass; newly passing beyond baseline: {len(ok - want)}")
for m in missing:
    print("  MISSING", m)
sys.exit(1 if missing else 0)
P
rc=$?
rm -f "$OUT"
exit $rc
