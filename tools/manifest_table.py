# Table consumed by tools/gen_manifest.py (exec'd).  Only checks that exist and run are listed in CHECKS;
# every other property id must have a reason in NA.

ENGINES = [
    {"name": "E2-sched", "path": "mc/sched.py", "serves_properties": ["C02", "C05", "C10"],
     "kind_free_text": "stateless preemption-bounded exploration of the real joblib thread-pool tasks under a baton "
                       "scheduler (sys.settrace scheduling points), one pool invocation at a time"},
    {"name": "E4-itersets", "path": "mc/itersets.py", "serves_properties": ["C16"],
     "kind_free_text": "controlled set subclass shadowing `set` in mokapot.parsers.fasta; each iteration is a choice point, "
                       "deviation-bounded re-execution with forced choice prefixes"},
    {"name": "E3-faults", "path": "mc/faults.py", "serves_properties": ["C09"],
     "kind_free_text": "fault injector over the file-mutating calls (to_csv, to_parquet, ParquetWriter, unlink, move, "
                       "open) + explicit-state BFS over canonical directory states"},
    {"name": "E1-enum", "path": "mc/core.py", "serves_properties": ["C01", "C02", "C03", "C05", "C06", "C07", "C08", "C10", "C11", "C12", "C13", "C14", "C17", "C18", "C19", "C20"],
     "kind_free_text": "bounded exhaustive enumeration of inputs/configurations/operation sequences on the real code "
                       "with reference-model or differential oracle; 16 forked workers"},
]

NOTES = ("Family: model checking as bounded exhaustive exploration of the implementation (DESIGN.md). "
         "VERIF_SEED only rotates traversal order; the explored set is identical for every seed. "
         "VERIF_REPO=<dir> points the checks at another checkout (mutation demos only).")

_NOTYET = "check not built yet in this commit (planned, see DESIGN.md section 4)"

CHECKS = {
    "C01": dict(
        level="exploration", engine="E1-enum", design="DESIGN.md 4/C01",
        technique="bounded exhaustive enumeration (all weak orderings x labels x directions, n<=6/7) vs exact rational reference",
        text="Every score vector up to length 6 (quick) / 7 (thorough) as a weak ordering - i.e. every tie pattern and "
             "every input order - with every label vector and both directions is executed on mokapot.qvalues.tdc and "
             "compared with an exact rational evaluation of the defining formula; dtypes, monotone rescalings and "
             "training labels at every distinguishing threshold are covered for smaller n (rescalings include maps that compress the scores below float32 resolution). Small-scope exhaustive: "
             "the formula's failure modes (tie handling, +1, un-sorting, direction) all manifest at n<=4.",
        note="Trusts numpy float division for the reference's final rational->float conversion; lengths above the bound "
             "and non-finite scores are not covered."),
}

CHECKS.update({
    "C02": dict(
        level="model_checking", engine="E1-enum + E2-sched", design="DESIGN.md 4/C02",
        technique="bounded exhaustive enumeration of datasets/configurations with recording estimators + stateless "
                  "preemption-bounded schedule exploration (CHESS-style) of brew's joblib pools on the real code",
        text="brew() is run with recording estimators (public Model API) over every spectrum-multiplicity vector x scan "
             "offsets x all <=2 (quick) / <=3 (thorough) deviations of folds, training cap, workers, seeds, estimator "
             "kind, spectrum-key width, number of files and format; from the recorders' logs the fold partition, "
             "spectrum grouping, train/held-out disjointness (PSM and spectrum), exact complement without cap and "
             "row-aligned calibrated scores are checked; all 2^m label patterns of one fold show that a memorising "
             "learner's held-out scores do not depend on held-out labels; every schedule of each pool invocation "
             "with <=1 (quick) / <=2 (thorough) preemptions must reproduce the sequential outcome, and free-running "
             "joblib with 2/4/8 workers must land in that outcome set.",
        note="Row identity relies on a feature with distinct values; third-party code is atomic between scheduling "
             "points (mokapot frame line/call events); real multi-core memory effects are outside the model."),
    "C03": dict(
        level="exploration", engine="E1-enum", design="DESIGN.md 4/C03",
        technique="bounded exhaustive enumeration of core tables (up to renaming) x configuration deviations vs a "
                  "tie-sound selection reference and the C01 rational q-value reference",
        text="Every canonical core table with n<=4 (quick) / n<=5 (thorough) rows over 3 spectra x 4 peptides, in all "
             "configurations within the deviation bound (de-duplication, roll-up, decoys, 1-3 collections, prefixes, "
             "text/Parquet, extra level columns - also with identifier strings coinciding across levels -, file order, streaming chunk size) plus a tie family, is pushed through assign_confidence with 13-digit scores; "
             "result files are validated level by level (one maximal row per spectrum/entity among the retained PSMs, "
             "row integrity, order, target/decoy split, q-values by the C01 formula on exactly the retained rows) and "
             "the stand-alone brew_rollup tool is run on the written files.",
        note="12 ballast rows keep both classes at every level; PEP values are only range-checked here (C06)."),
    "C18": dict(
        level="exploration", engine="E1-enum", design="DESIGN.md 4/C18",
        technique="bounded exhaustive enumeration of FASTA inputs (all sequences over {A,C,K,R} to length 7/9, pairs, "
                  "multi-file, wrapped records) x modes x RNG seeds vs structural invariants and independent read-back",
        text="make_decoys is run on every sequence up to the length bound in every mode (reverse, shuffle with global "
             "seeds 0..7, concatenate on/off), on pairs, several files, repeated accessions, wrapped records, header variants and call histories in one process (shuffle then reverse and vice versa); name, "
             "length, residue multiset, fixed peptide termini, identical cleavage sites, exact interior reversal, "
             "target-first order and round trip through an independent FASTA reader and mokapot's own are checked.",
        note="An entry is read as (name, sequence); header descriptions and line width are not part of the statement."),
    "C20": dict(
        level="exploration", engine="E1-enum", design="DESIGN.md 4/C20",
        technique="deviation-bounded exhaustive enumeration (<=3 quick / <=5 thorough deviations over 16 dimensions) of "
                  "generated PepXML documents vs the builder's own record of what it wrote",
        text="Documents are generated by a builder that knows every hit it wrote; read_pepxml(to_df=True) must return "
             "one row per hit in document order with the spectrum's scan/charge/RT/mass, run file name, modified "
             "peptide string, all protein accessions, numeric scores and the decoy label rule; negatives must raise.",
        note="Any exception counts as rejection for malformed input; calc_mass-derived features are not compared."),
})

CHECKS.update({
    "C11": dict(
        level="exploration", engine="E1-enum", design="DESIGN.md 4/C11",
        technique="bounded exhaustive enumeration of datasets x folds 2..6 x evaluation FDRs x estimators; per-fold raw "
                  "output recovered with a recording estimator and compared with the closed-form map (r-t)/(t-d)",
        text="For every (file, fold) of every returned result the raw output of the fold's model and the returned scores "
             "of the same rows are recovered from the recording estimator; with t (lowest accepted target by the C01 "
             "reference) and d (decoy median) the scores must equal (r - t)/(t - d) exactly (1e-9): strictly increasing "
             "affine, t -> 0, d -> -1. A fold without an accepted target must make brew raise its explicit error; the "
             "impossible-FDR family checks that error path; dyadic FDRs put q-values exactly on the threshold; an estimator "
             "with both decision_function and predict_proba must be calibrated as well.",
        note="Folds with t <= d are outside the statement and skipped (counted in the evidence)."),
    "C12": dict(
        level="exploration", engine="E1-enum", design="DESIGN.md 4/C12",
        technique="exhaustive enumeration of all n! row permutations (n=6,7 quick; 6..8 thorough) x shuffle x iteration "
                  "counts x estimator kind; every fit/score call of a recording estimator checked against the C01 "
                  "reference labels; differential invariance of the closed-form model",
        text="Model.fit is run on every row order of small datasets with shuffling on and off; for every logged fit call "
             "positives must be exactly the targets accepted at train_fdr under the preceding scores (C01 reference), "
             "negatives exactly the decoys, rows and labels of the same PSM; learned weights and predictions must equal "
             "those of the stored order (1e-9); a hyper-parameter search wrapper must receive aligned rows/labels too; "
             "prediction with permuted feature columns and after save/load must agree.",
        note="The estimator is order independent by construction; training refusals are compared differentially with the "
             "stored-order run."),
    "C17": dict(
        level="exploration", engine="E1-enum", design="DESIGN.md 4/C17",
        technique="exhaustive enumeration of all sequences over a 4-letter alphabet to length 7 (quick) / 8-10 (thorough) "
                  "x 4 enzyme patterns x missed cleavages 0..3 x all length bounds x clip x semi vs the definition",
        text="mokapot.digest is compared with the definition (distinct cleavage sites, missed-cleavage span, length "
             "bounds, clipped N-terminal forms, semi-enzymatic prefixes/suffixes) on every input of the bounded space; "
             "monotonicity in missed cleavages, bounds and semi and the substring clause are checked on the outputs.",
        note="must/allowed sets: where the statement is silent (semi forms of clipped peptides) either behaviour passes."),
    "C19": dict(
        level="exploration", engine="E1-enum", design="DESIGN.md 4/C19",
        technique="exhaustive enumeration of small PIN texts (feature columns x protein-column position x rows x proteins "
                  "per row x DefaultDirection variants x trailing newline x separator) vs a reference converter",
        text="pin_to_valid_tsv / is_valid_tsv are run on every generated text: header kept, one line per PSM in order, "
             "non-protein fields unchanged, proteins joined, output valid, conversion idempotent, validity predicate "
             "exactly 'rectangular and no DefaultDirection line'; the CLI's verify step is driven on scratch files.",
        note="Fields are non-empty and whitespace free."),
})

CHECKS.update({
    "C05": dict(
        level="model_checking", engine="E1-enum + E2-sched", design="DESIGN.md 4/C05",
        technique="differential bounded exhaustive enumeration of configuration deviations (chunk sizes 1..n+1, row groups, "
                  "workers, format) against a reference execution + stateless preemption-bounded schedule exploration "
                  "of every joblib pool invocation of read_pin / brew / assign_confidence",
        text="brew -> assign_confidence on three designed tables (duplicates adjacent / far apart / exact duplicate rows) "
             "and a two-file joint run is repeated under every single value 1..n+1 of each streaming chunk constant, "
             "every Parquet row-group size, 1-16 workers, all pairs (quick) / triples (thorough) over a reduced value "
             "set, with de-duplication on and off and with learners with and without decision function; scores, training-row order and every result file must equal the reference execution; "
             "read_pin likewise over its column/row scan chunks; pool invocations of read_pin, of a two-file brew (per-file "
             "concat pool; joblib return_as modelled) and of assign_confidence (also with cross-chunk score ties) are "
             "explored under the baton scheduler (<=1 / <=2 preemptions) and must reproduce the sequential outcome.",
        note="Rows with exactly equal scores may swap places; PEPs across text/Parquet compared at 5e-2 (qvality "
             "amplifies last-bit score differences); third-party code atomic between scheduling points."),
})

CHECKS.update({
    "C13": dict(
        level="exploration", engine="E1-enum", design="DESIGN.md 4/C13",
        technique="exhaustive enumeration of tables (0..5/8 rows) x reader kinds x chunk sizes x ordered column subsets, "
                  "and of writer kinds x buffer sizes x buffer kinds x every composition of the rows into append "
                  "sequences x protocol, vs a list-of-tuples reference",
        text="Every reader kind (text, Parquet with every row-group size, in-memory, column-mapped, joined, computed) is "
             "read chunk-wise with every chunk size and every ordered column subset and compared with whole reading and "
             "the reference rows (values, column order, continuing index); all requests of one (rows, kind) are issued against the same reader object; every writer kind/buffer "
             "size/buffer kind is driven through every append sequence (records with per-row inferred dtypes included) and "
             "the finalised file read back.",
        note="One fixed, clearly typed table per row count; chunk-wise CSV dtype ambiguity is outside the alphabet; the "
             "computed reader is driven with explicit column lists only."),
    "C14": dict(
        level="exploration", engine="E1-enum", design="DESIGN.md 4/C14",
        technique="exhaustive enumeration of all distributions of <=5/6 tied rows into <=4 sorted inputs x chunk sizes x "
                  "both merge implementations x access paths x directions, vs sorted-multiset reference; negatives "
                  "with one adjacent inversion",
        text="utils.merge_sort (text and Parquet) and MergedTabularDataReader (read, chunked, row iterators of all three "
             "row types; descending and ascending) are run on every split of every small score multiset: every input "
             "row (scores from {-1, 0, 1}) must come out exactly once, unmodified, globally sorted, independent of chunk size and of how the "
             "rows are split; an input with an inversion must be rejected or still yield a sorted result.",
        note="Tie order is free; reader chunk sizes run to the longest input + 1."),
})

CHECKS.update({
    "C07": dict(
        level="exploration", engine="E1-enum", design="DESIGN.md 4/C07",
        technique="exhaustive enumeration of the product datasets x label encodings x feature direction x scripted "
                  "estimators x format x override; accepted-count rule evaluated by the C01 reference on genuine labels",
        text="brew is run with estimators that learn, cannot learn, learn the inverse or degrade on unseen rows, for "
             "every label encoding (1/-1, 1/0, bool), higher- and lower-is-better best features (also a weak feature pointing "
             "the other way), text and Parquet, override on/off, evaluation FDR equal to or stricter than the training FDR; "
             "each model's best-feature record is compared with reference counts on its own training rows; whenever model scores are returned they must accept at least as many genuine targets "
             "(C01 reference) as the best feature did in training, a fallback must return exactly that feature with "
             "its direction, and assign_confidence on the returned (scores, descs) must compete, order and compute "
             "q-values in the returned direction.",
        note="feat_pass/best_feat/desc are read from the returned models (public attributes named by the property)."),
})

CHECKS.update({
    "C09": dict(
        level="fault_enumeration", engine="E3-faults", design="DESIGN.md 4/C09",
        technique="explicit-state breadth-first search over directory states reached by injecting every fault kind at "
                  "every intercepted file-mutating call of assign_confidence / brew_rollup / CLI runs; invariant "
                  "(fault-free run equals pristine-directory run) evaluated in every reached state",
        text="Every write/append/unlink/move/open call of each run configuration is a crash point for five fault kinds "
             "(I/O error before/after, kill before/after with dead-mode cleanup, torn write); the resulting directory "
             "contents are de-duplicated states; in every state each configuration is run fault-free and must produce "
             "byte-identical result files, leave no intermediate file of its own (new or re-written), and (CLI) leave the "
             "user's PIN equal to the conversion of the original. Transitions also include successful earlier runs (other "
             "inputs/chunking/prefix, roll-up in place) and the user re-exporting an input; histories of 2 (quick) / 3 "
             "(thorough) steps.",
        note="Crash granularity = intercepted calls; depth >1 is expanded from a capped number of states (reported in "
             "caps_hit); max_workers=1."),
})

CHECKS.update({
    "C15": dict(
        level="exploration", engine="E1-enum", design="DESIGN.md 4/C15",
        technique="exhaustive enumeration of mirrored target/decoy databases (<=3 pairs, up to renaming) x entry orders x "
                  "retained peptide subsets x all score rank permutations x notation variants vs a picked-protein "
                  "reference; end to end through assign_confidence(proteins=...)",
        text="picked_protein is called directly and through assign_confidence on every canonical mirrored database, "
             "every retained subset of its peptides (shared ones included) with every assignment of score ranks and "
             "every peptide notation (flanks, bracket/parenthesis modifications, lower-case tags): exactly one entry "
             "per target/decoy pair with a retained unique peptide, won by the best unique peptide and reporting it, "
             "shared peptides never contributing, protein q-values by the C01 formula over these entries.",
        note="Every peptide maps (unique or shared) except in a tiny negative family; target-only FASTA (random decoy "
             "matching) is not explored."),
    "C16": dict(
        level="exploration", engine="E1-enum + E4-itersets", design="DESIGN.md 4/C16",
        technique="exhaustive enumeration of all protein/peptide incidence structures (<=4 x <=4) x all entry orders + "
                  "deviation-bounded exploration of every hash-set iteration order inside parsers.fasta (controlled "
                  "set subclass), conformance run over PYTHONHASHSEED 0..7",
        text="read_fasta is run on every multiset of <=4 proteins over the 16 subsets of 4 peptides in every entry order "
             "(plus decoy-prefixed, other-prefix and missed-cleavage variants); groups reconstructed from the returned "
             "maps must cover every digested protein, be generated by a member, form an antichain, agree with the "
             "unique/shared peptide maps and the target->decoy pairing, and be identical across entry orders and across "
             "every explored iteration order of the sets used while grouping (0/1 deviations quick, 2 thorough).",
        note="A protein contained in two maximal proteins must be in at least one group; order of names inside a group "
             "string is free."),
})

CHECKS.update({
    "C08": dict(
        level="exploration", engine="E1-enum", design="DESIGN.md 4/C08",
        technique="exhaustive enumeration of the grid seeds x folds x workers x estimator x FASTA mode x entry point; each "
                  "case executed under every history variant (repeat after another analysis, other worker count, fresh "
                  "interpreters for PYTHONHASHSEED 0..7, all k! orders of fed-back models) with a digest differential",
        text="A complete analysis (brew -> read_fasta -> assign_confidence with proteins; also the CLI) is digested "
             "(score bytes, fold membership via recording estimator or SVM coefficients, every result file byte for "
             "byte, FASTA maps as sets) and the digest must be identical when the analysis is repeated in the same "
             "process after other work, with a Proteins object shared with an earlier analysis, with another worker count, "
             "in fresh interpreters under each enumerated hash seed (numeric and file-name-led spectrum keys), and the scores must be reproduced exactly when the returned models are fed back in any order.",
        note="Hash seeds are enumerated over 0..7 (0..3 quick), not all 2^32; one 128-PSM dataset with anagram peptides "
             "(so that random decoy matching has a choice)."),
})

CHECKS.update({
    "C06": dict(
        level="exploration", engine="E1-enum", design="DESIGN.md 4/C06",
        technique="exhaustive enumeration of a deterministic grid of score sets (81 mixtures from quantile grids) x input "
                  "orders (12/50 block permutations) x all PEP and q-value algorithms; metamorphic alignment relation "
                  "f(x.pi) = f(x).pi plus range / monotonicity / tie clauses; end to end through assign_confidence",
        text="Every selectable PEP estimator (qvality, kde_nnls, hist_nnls) and q-value estimator (tdc, from_peps, "
             "from_counts) is run on every score set of the grid (incl. a shape with a low-scoring target group) in every enumerated input order: one finite value "
             "per PSM, PEPs in [0,1], never decreasing as the score worsens, equal on ties, and the i-th value belongs "
             "to the i-th PSM (permutation metamorphic relation); result files of assign_confidence must carry, for "
             "every row, the stand-alone PEP of that row's score.",
        note="Score sets are deterministic quantile grids (no sampling); from_counts is order dependent among mixed-label "
             "ties, so its alignment relation is demanded only on sets without such ties; inf is accepted for "
             "from_counts (outside the statement)."),
    "C10": dict(
        level="exploration", engine="E1-enum + E2-sched", design="DESIGN.md 4/C10",
        technique="exhaustive enumeration of feature counts 1..60 x identifier sets x column-scan chunk sizes x formats, "
                  "deviation-bounded enumeration (<=2 quick / <=3 thorough over 14 axes) of column order, casing, "
                  "optional columns, label encodings, NaN placement, row counts, scan chunks, workers; negatives; "
                  "baton-scheduler exploration of the read_percolator pool",
        text="read_pin / read_percolator is run on generated text and Parquet tables and compared with the generator's "
             "record: one spectra row per input row in file order, targets exactly the rows labelled 1/true, spectrum "
             "key made of the available file/scan/time/mass columns, features exactly the non-reserved columns without "
             "missing values, nothing dropped; missing required columns and out-of-range labels must be rejected with "
             "an error; the same path rewritten with another table and parsed again must reflect the new file; every "
             "schedule of the column-scan pool within the preemption bound equals the sequential run.",
        note="A Charge column may stay a feature (find_optional_column looks for 'charge_column'); accepted either way."),
})

NA = {
    "C04": "expectation over a data-generating distribution: exact enumeration over all 2^K labelings (K<=12) was "
           "measured to have no discriminating power (E[FDP] stays far below alpha even with the +1 removed or the "
           "held-out fold leaked); anything larger is Monte-Carlo sampling, a different family (DESIGN.md section 6). "
           "Its mechanisms are decided by C01, C02, C03, C11.",
}
# families added after seeded wave 6 (appended to the level texts)
_WAVE6 = {
    "C01": "One vector with counts beyond 2**24 (16.8M targets, 1M decoys, 1M targets; thorough: both directions and a decoy-heavy "
           "one) is compared with the closed form of the formula (int64 counts, float64 division).",
    "C02": "A history deviation brews shallow copies of the same dataset objects beforehand with other fold counts.",
    "C05": "Runs with a binding subset_max_train (capped random training subset) are repeated under every training-read chunk size.",
    "C06": "Input orders include label-dependent ones (targets ranked then decoys ranked, the reverse, alternating ranked runs).",
    "C07": "A multi-collection run whose learner cannot learn (fallback taken) is explored under the baton scheduler: every schedule "
           "of every pool invocation inside brew with <=1 (quick) / <=2 (thorough) preemptions must hand each collection its own "
           "best-feature values, and free-running joblib must land in that outcome set.",
    "C08": "The worker-count / thread-timing clause is also decided by E2: every schedule of every pool invocation of a seeded "
           "3-worker analysis with <=1 (quick) / <=2 (thorough) preemptions must reproduce the sequential digest, including the "
           "order in which each fit call received its rows (which follows the model's random generator).",
    "C11": "A same-path history (another export analysed under the same paths earlier in the process) must neither change the map "
           "nor turn a calibratable analysis into an explicit error (differential against the analysis alone).",
    "C12": "A two-level learner ties targets with decoys at the training-FDR boundary (tie groups accepted or rejected as a whole); "
           "fit calls that precede a refusal are judged too.",
    "C13": "Parquet sources also come with unequal row groups: every composition of <=5/6 rows into >=2 groups.",
    "C14": "Inputs are also laid out under one file name in different directories.",
    "C15": "The end-to-end family is repeated with confidence chunk sizes 1..3 (peptide table streamed in several chunks).",
    "C19": "A second family places a blank or an exotic separator character (\\x0b \\x0c \\x1c-\\x1e \\x85 U+2028 U+2029) inside fields.",
    "C20": "Runs of one file are also listed in non-lexical order of their data-file names.",
}
for _p, _t in _WAVE6.items():
    CHECKS[_p]["text"] += " " + _t
CHECKS["C07"]["engine"] = "E1-enum + E2-sched"
CHECKS["C07"]["technique"] += "; stateless preemption-bounded schedule exploration (CHESS-style) of brew's pool invocations for a multi-collection fallback run"
CHECKS["C08"]["engine"] = "E1-enum + E2-sched"
CHECKS["C08"]["technique"] += "; stateless preemption-bounded schedule exploration of the pool invocations of a seeded multi-worker analysis"
CHECKS["C19"]["note"] = "Fields are non-empty and free of tab / CR / LF; other whitespace only inside fields, never at a line end."
CHECKS["C01"]["note"] = CHECKS["C01"]["note"].replace("lengths above the bound", "lengths above the bound (except the one designed large-count vector)")
for _e in ENGINES:
    if _e["name"] == "E2-sched":
        _e["serves_properties"] += [p for p in ("C07", "C08") if p not in _e["serves_properties"]]

for _p in ["C02", "C03", "C05", "C06", "C07", "C08", "C09", "C10", "C11", "C12", "C13", "C14", "C15", "C16", "C17",
           "C18", "C19", "C20"]:
    NA.setdefault(_p, _NOTYET)
