# Table consumed by tools/gen_manifest.py (exec'd).  Only checks that exist and run are listed in CHECKS;
# every other property id must have a reason in NA.

ENGINES = [
    {"name": "E1-enum", "path": "mc/core.py", "serves_properties": ["C01"],
     "kind_free_text": "bounded exhaustive enumeration of inputs/configurations/operation sequences on the real code "
                       "with reference-model or differential oracle; 16 forked workers"},
]

NOTES = ("Family: model checking as bounded exhaustive exploration of the implementation (DESIGN.md). "
         "VERIF_SEED only rotates traversal order; the explored set is identical for every seed. "
         "VERIF_REPO=<dir> points the checks at another checkout (mutation demos only).")

_NOTYET = "check not built yet in this commit (planned, see DESIGN.md section 4)"

CHECKS = {
    "C01": dict(
        level="exploration", engine="E1-enum", design="DESIGN.md 4/C01",
        technique="bounded exhaustive enumeration (all weak orderings x labels x directions, n<=6/7) vs exact rational reference",
        text="Every score vector up to length 6 (quick) / 7 (thorough) as a weak ordering - i.e. every tie pattern and "
             "every input order - with every label vector and both directions is executed on mokapot.qvalues.tdc and "
             "compared with an exact rational evaluation of the defining formula; dtypes, monotone rescalings and "
             "training labels at every distinguishing threshold are covered for smaller n. Small-scope exhaustive: "
             "the formula's failure modes (tie handling, +1, un-sorting, direction) all manifest at n<=4.",
        note="Trusts numpy float division for the reference's final rational->float conversion; lengths above the bound "
             "and non-finite scores are not covered."),
}

NA = {
    "C04": "expectation over a data-generating distribution: exact enumeration over all 2^K labelings (K<=12) was "
           "measured to have no discriminating power (E[FDP] stays far below alpha even with the +1 removed or the "
           "held-out fold leaked); anything larger is Monte-Carlo sampling, a different family (DESIGN.md section 6). "
           "Its mechanisms are decided by C01, C02, C03, C11.",
}
for _p in ["C02", "C03", "C05", "C06", "C07", "C08", "C09", "C10", "C11", "C12", "C13", "C14", "C15", "C16", "C17",
           "C18", "C19", "C20"]:
    NA.setdefault(_p, _NOTYET)
