#!/usr/bin/env python3
"""Generate MANIFEST.json from the table below (kept in one place so it stays valid)."""
import json, sys
from pathlib import Path
V = Path(__file__).resolve().parent.parent

BASE_OFF = ("cd /repo && env -u MOKAPOT_VERIF /venv/bin/python -m pytest -ra -q -p no:cacheprovider "
            "--timeout=900 --continue-on-collection-errors")

CHECKS = {}   # id -> dict(level, technique, text, note, design, engine)
NA = {}       # id -> reason
exec((V / "tools" / "manifest_table.py").read_text())

props = [json.loads(l)["id"] for l in (V / "properties.jsonl").read_text().splitlines() if l.strip()]
checks = []
for pid in props:
    if pid in CHECKS:
        c = CHECKS[pid]
        checks.append({
            "property_id": pid,
            "quick_cmd": f"./check {pid} --tier quick",
            "thorough_cmd": f"./check {pid} --tier thorough",
            "evidence_file": f"/verif/evidence/{pid}.json",
            "replay_cmd_template": f"./check {pid} --replay {{path}}",
            "engine": c["engine"],
            "level_claimed": {"category": c["level"], "text": c["text"], "design_ref": c["design"]},
            "level_note": c["note"],
            "technique": c["technique"],
        })
    else:
        assert pid in NA, pid
m = {
    "version": 1,
    "setup_cmd": "./tools/setup.sh",
    "hooks": {
        "guard": "MOKAPOT_VERIF",
        "enable": "no source hooks: every seam (joblib.Parallel names, chunk-size module globals, file-mutating calls, "
                  "set() in parsers.fasta, estimators) is attached from the harness; the runner exports MOKAPOT_VERIF=1",
        "baseline_off_cmd": BASE_OFF,
        "source_commits": [],
        "add_only": True,
    },
    "engines": ENGINES,
    "checks": checks,
    "not_applicable": [{"property_id": k, "reason": v} for k, v in NA.items() if k not in CHECKS],
    "notes": NOTES,
}
(V / "MANIFEST.json").write_text(json.dumps(m, indent=1) + "\n")
print("checks:", [c["property_id"] for c in checks], "na:", [k for k in NA if k not in CHECKS])
