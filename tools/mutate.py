#!/usr/bin/env python3
"""Apply one textual mutation to a scratch worktree of /repo, run checks against it, revert.
usage: tools/mutate.py <name> <file> <old> <new> -- C02 [C05 ...]     (old/new: python string literals allowed via $'..')
The worktree (/tmp/wt_mut_<pid-less name>) is created from /repo HEAD when missing and removed with --done."""
import subprocess, sys, os, re, pathlib, shutil
WT = pathlib.Path(os.environ.get("MUT_WT", "/tmp/wt_mut"))
def sh(*a, **k): return subprocess.run(a, text=True, capture_output=True, **k)
if sys.argv[1] == "--done":
    sh("git", "-C", "/repo", "worktree", "remove", "--force", str(WT)); sys.exit(0)
name, file, old, new = sys.argv[1:5]
checks = sys.argv[sys.argv.index("--") + 1:]
if not WT.exists():
    r = sh("git", "-C", "/repo", "worktree", "add", "--detach", str(WT), "HEAD"); assert r.returncode == 0, r.stderr
else:
    sh("git", "-C", str(WT), "checkout", "--detach", "-q", sh("git","-C","/repo","rev-parse","HEAD").stdout.strip())
    sh("git", "-C", str(WT), "checkout", "--", ".")
p = WT / file
s = p.read_text()
assert s.count(old) == 1, f"pattern occurs {s.count(old)} times"
p.write_text(s.replace(old, new))
tests = "--tests" in sys.argv
try:
    if tests:
        r = sh("/verif/tools/baseline.sh", str(WT)); print(name, "TESTS:", r.stdout.strip().splitlines()[0])
    for c in checks:
        if c.startswith("--"): continue
        env = dict(os.environ, VERIF_REPO=str(WT))
        r = sh("/verif/check", c, "--tier", os.environ.get("MUT_TIER", "quick"), env=env, cwd="/verif")
        viol = [l for l in r.stdout.splitlines() if l.startswith("VIOLATION")]
        sigs = [l.strip().split(":")[0] for l in r.stdout.splitlines() if l.startswith("  ")]
        print(f"{name}: {c} rc={r.returncode} violations={len(viol)} {sigs[:6]}")
        if r.returncode not in (0, 1): print(r.stdout[-800:], r.stderr[-800:])
finally:
    sh("git", "-C", str(WT), "checkout", "--", ".")
