"""E3 - crash-point / fault enumerator over the file-mutating calls of a run (DESIGN.md section 2).

All file-mutating calls that mokapot's result writers use are intercepted from the harness while a run
executes: DataFrame.to_csv / to_parquet, pyarrow.parquet.ParquetWriter (open / write_table / close),
Path.unlink, os.unlink / os.remove, shutil.move and builtins.open in a writing mode.  A clean run
records the ordered trace of such calls on paths under the watched roots; a faulty run injects one
fault at call k:

  error-before  OSError instead of the call
  error-after   call performed, then OSError
  kill-before   Kill (BaseException) + *dead mode*: every later intercepted call raises immediately
  kill-after    without effect, so `finally:` blocks and `except Exception:` handlers cannot clean up
  torn          appends / text writes: only the first half of the rows/lines reach the file, then kill
"""

from __future__ import annotations

import builtins
import errno
import hashlib
import os
import shutil
from pathlib import Path

KINDS = ("error-before", "error-after", "kill-before", "kill-after", "torn")


class Kill(BaseException):
    """Models SIGKILL / power loss at an intercepted call."""


class Injector:
    def __init__(self, roots, plan=None):
        self.roots = [str(Path(r).resolve()) for r in roots]
        self.plan = plan  # (index, kind) or None
        self.trace = []
        self.dead = False
        self.busy = False
        self.fired = False

    def watched(self, path):
        try:
            p = os.path.abspath(os.fspath(path))
        except TypeError:
            return False
        return any(p == r or p.startswith(r + os.sep) for r in self.roots)

    def rel(self, path):
        p = os.path.abspath(os.fspath(path))
        for i, r in enumerate(self.roots):
            if p.startswith(r):
                return f"{i}:{p[len(r) + 1:]}"
        return p

    def op(self, name, path, do, torn_do=None):
        if self.busy or not self.watched(path):
            return do()
        if self.dead:
            raise Kill(f"dead: {name}")
        k = len(self.trace)
        self.trace.append((name, self.rel(path)))
        self.busy = True
        try:
            if self.plan is not None and self.plan[0] == k:
                kind = self.plan[1]
                self.fired = True
                if kind == "error-before":
                    raise OSError(errno.EIO, f"injected I/O error before {name}", str(path))
                if kind == "kill-before":
                    self.dead = True
                    raise Kill(name)
                if kind == "torn":
                    if torn_do is not None:
                        torn_do()
                    else:
                        do()
                    self.dead = True
                    raise Kill(name)
                r = do()
                if kind == "error-after":
                    raise OSError(errno.EIO, f"injected I/O error after {name}", str(path))
                if kind == "kill-after":
                    self.dead = True
                    raise Kill(name)
                return r
            return do()
        finally:
            self.busy = False


class _WriteProxy:
    """File object opened for writing under a watched root: passes writes through; with `limit` only the first
    `limit` write() calls reach the file, the next one kills the run (torn write)."""

    def __init__(self, f, inj=None, limit=None):
        self._f = f
        self._inj = inj
        self._limit = limit
        self._n = 0

    def write(self, data):
        if self._limit is not None and self._n >= self._limit:
            self._f.flush()
            self._inj.dead = True
            raise Kill("torn text write")
        self._n += 1
        return self._f.write(data)

    def __getattr__(self, a):
        return getattr(self._f, a)

    def __enter__(self):
        self._f.__enter__()
        return self

    def __exit__(self, *a):
        return self._f.__exit__(*a)

    def __iter__(self):
        return iter(self._f)


class Patched:
    """Context manager installing the interceptors for one run."""

    def __init__(self, inj: Injector):
        self.inj = inj

    def __enter__(self):
        import pandas as pd
        import pyarrow.parquet as pq

        inj = self.inj
        self.saved = []

        def patch(obj, name, new):
            self.saved.append((obj, name, getattr(obj, name)))
            setattr(obj, name, new)

        o_to_csv = pd.DataFrame.to_csv

        def to_csv(df, path_or_buf=None, *a, **k):
            if path_or_buf is None or not isinstance(path_or_buf, (str, os.PathLike)):
                return o_to_csv(df, path_or_buf, *a, **k)
            mode = k.get("mode", "w")

            def torn():
                o_to_csv(df.iloc[: len(df) // 2], path_or_buf, *a, **k)

            return inj.op(f"to_csv[{mode}]", path_or_buf, lambda: o_to_csv(df, path_or_buf, *a, **k), torn)

        patch(pd.DataFrame, "to_csv", to_csv)

        o_to_parquet = pd.DataFrame.to_parquet

        def to_parquet(df, path=None, *a, **k):
            if path is None or not isinstance(path, (str, os.PathLike)):
                return o_to_parquet(df, path, *a, **k)

            def torn():
                with open(path, "wb") as f:
                    f.write(b"PAR1")  # truncated file

            return inj.op("to_parquet", path, lambda: o_to_parquet(df, path, *a, **k), torn)

        patch(pd.DataFrame, "to_parquet", to_parquet)

        o_init, o_write, o_close = pq.ParquetWriter.__init__, pq.ParquetWriter.write_table, pq.ParquetWriter.close

        def pw_init(w, where, *a, **k):
            w._verif_path = where
            return inj.op("ParquetWriter.open", where, lambda: o_init(w, where, *a, **k))

        def pw_write(w, *a, **k):
            return inj.op("ParquetWriter.write_table", getattr(w, "_verif_path", ""), lambda: o_write(w, *a, **k))

        def pw_close(w, *a, **k):
            return inj.op("ParquetWriter.close", getattr(w, "_verif_path", ""), lambda: o_close(w, *a, **k))

        patch(pq.ParquetWriter, "__init__", pw_init)
        patch(pq.ParquetWriter, "write_table", pw_write)
        patch(pq.ParquetWriter, "close", pw_close)

        o_unlink = Path.unlink

        def p_unlink(p, *a, **k):
            return inj.op("unlink", p, lambda: o_unlink(p, *a, **k))

        patch(Path, "unlink", p_unlink)
        o_os_unlink, o_os_remove = os.unlink, os.remove

        def os_unlink(p, *a, **k):
            return inj.op("unlink", p, lambda: o_os_unlink(p, *a, **k))

        def os_remove(p, *a, **k):
            return inj.op("unlink", p, lambda: o_os_remove(p, *a, **k))

        patch(os, "unlink", os_unlink)
        patch(os, "remove", os_remove)
        o_move = shutil.move

        def move(src, dst, *a, **k):
            return inj.op("move", dst, lambda: o_move(src, dst, *a, **k))

        patch(shutil, "move", move)
        o_open = builtins.open

        def v_open(file, mode="r", *a, **k):
            if isinstance(file, (str, os.PathLike)) and any(c in mode for c in "wax+") and "b" not in mode and inj.watched(file) and not inj.busy:
                if inj.plan is not None and inj.plan == (len(inj.trace), "torn") and not inj.dead:
                    inj.trace.append((f"open[{mode}]", inj.rel(file)))
                    inj.fired = True
                    return _WriteProxy(o_open(file, mode, *a, **k), inj, limit=2)
                return inj.op(f"open[{mode}]", file, lambda: _WriteProxy(o_open(file, mode, *a, **k)))
            return o_open(file, mode, *a, **k)

        patch(builtins, "open", v_open)
        return inj

    def __exit__(self, *a):
        for obj, name, old in reversed(self.saved):
            setattr(obj, name, old)


def snapshot(dirs):
    """Canonical state: {"<i>:<relative name>": bytes} over the watched directories."""
    st = {}
    for i, d in enumerate(dirs):
        d = Path(d)
        if not d.exists():
            continue
        for p in sorted(d.rglob("*")):
            if p.is_file():
                st[f"{i}:{p.relative_to(d)}"] = p.read_bytes()
    return st


def state_key(st):
    h = hashlib.sha1()
    for k in sorted(st):
        h.update(k.encode())
        h.update(b"\0")
        h.update(hashlib.sha1(st[k]).digest())
    return h.hexdigest()[:20]


def materialize(st, dirs):
    for d in dirs:
        d = Path(d)
        if d.exists():
            shutil.rmtree(d)
        d.mkdir(parents=True)
    for k, b in st.items():
        i, name = k.split(":", 1)
        p = Path(dirs[int(i)]) / name
        p.parent.mkdir(parents=True, exist_ok=True)
        p.write_bytes(b)


def run_with(inj, fn):
    """Run fn() under the injector. Returns ('ok', result) | ('error', exc) | ('killed', None)."""
    with Patched(inj):
        try:
            return "ok", fn()
        except Kill:
            return "killed", None
        except Exception as e:
            return "error", e
        except SystemExit as e:
            return "error", e
