"""Common machinery of the model-checking harness (see DESIGN.md section 2).

A check module (checks/cXX_*.py) exposes

    PROPERTY   "C01"
    LEVEL      "exploration" | "fault_enumeration" | "model_checking"
    RULE       how cases are enumerated / what counts as non-trivial
    ASSUMPTIONS  list of strings
    def run(ctx): ...            enumerate, call ctx.pmap / ctx.acc
    def replay(case) -> list     re-check one recorded case (list of violation dicts)

Workers return `Acc` objects (plain picklable counters) which the parent merges.
Every count in the evidence is measured here, never declared.
"""

from __future__ import annotations

import hashlib
import json
import multiprocessing as mp
import os
import shutil
import sys
import tempfile
import time
import traceback
from pathlib import Path

VERIF = Path(__file__).resolve().parent.parent
REPO = Path(os.environ.get("VERIF_REPO", "/repo")).resolve()
NPROC = int(os.environ.get("VERIF_NPROC", "16"))


def stable_hash(obj) -> str:
    """Process-independent hash of a JSON-able object."""
    return hashlib.sha1(
        json.dumps(obj, sort_keys=True, default=str).encode()
    ).hexdigest()[:16]


def jsonable(o):
    import numpy as np

    if isinstance(o, dict):
        return {str(k): jsonable(v) for k, v in o.items()}
    if isinstance(o, (list, tuple, set, frozenset)):
        seq = sorted(o, key=repr) if isinstance(o, (set, frozenset)) else o
        return [jsonable(v) for v in seq]
    if isinstance(o, np.ndarray):
        return jsonable(o.tolist())
    if isinstance(o, np.generic):
        return jsonable(o.item())
    if isinstance(o, float):
        if o != o:
            return "nan"
        if o in (float("inf"), float("-inf")):
            return "inf" if o > 0 else "-inf"
        return o
    if isinstance(o, (str, int, bool)) or o is None:
        return o
    if isinstance(o, Path):
        return str(o)
    return repr(o)


class Violation(dict):
    """A violation record: signature (stable, specific), message, case."""

    def __init__(self, signature, message, case, expected=None, observed=None):
        super().__init__(
            signature=signature,
            message=message,
            case=jsonable(case),
            expected=jsonable(expected),
            observed=jsonable(observed),
        )


class Acc:
    """Picklable accumulator for one worker / the whole run."""

    MAX_VIOL = 40
    MAX_SAMPLES = 6

    def __init__(self):
        self.evaluations = 0
        self.nontrivial = set()  # hashes of distinct non-trivial cases
        self.nontrivial_count = 0  # used instead of the set when huge
        self.outcomes = set()  # hashes of distinct observed outcomes
        self.classes = {}  # outcome class -> count (result/explicit_error/...)
        self.samples = []
        self.violations = []
        self.n_violations = 0
        self.extra = {}  # summed integer counters
        self.notes = set()
        self.caps = []
        self.payload = []  # arbitrary picklable items handed back to the parent (e.g. newly reached states)

    # -- filling -----------------------------------------------------------
    def case(self, key=None, nontrivial=False, outcome=None, cls=None, sample=None):
        self.evaluations += 1
        if nontrivial:
            if key is None:
                self.nontrivial_count += 1
            else:
                self.nontrivial.add(key if isinstance(key, (int, str)) else stable_hash(key))
        if outcome is not None:
            if len(self.outcomes) < 200000:
                self.outcomes.add(outcome if isinstance(outcome, (int, str)) else stable_hash(outcome))
        if cls is not None:
            self.classes[cls] = self.classes.get(cls, 0) + 1
        if sample is not None and len(self.samples) < self.MAX_SAMPLES:
            self.samples.append(jsonable(sample))

    def count(self, name, n=1):
        self.extra[name] = self.extra.get(name, 0) + n

    def violation(self, v: Violation):
        self.n_violations += 1
        if len(self.violations) < self.MAX_VIOL:
            self.violations.append(v)

    def merge(self, other: "Acc"):
        self.evaluations += other.evaluations
        self.nontrivial |= other.nontrivial
        self.nontrivial_count += other.nontrivial_count
        self.outcomes |= other.outcomes
        for k, v in other.classes.items():
            self.classes[k] = self.classes.get(k, 0) + v
        for k, v in other.extra.items():
            self.extra[k] = self.extra.get(k, 0) + v
        room = self.MAX_SAMPLES * 3 - len(self.samples)
        if room > 0:
            self.samples.extend(other.samples[: max(1, room // 4)])
        for v in other.violations:
            if len(self.violations) < self.MAX_VIOL * 4:
                self.violations.append(v)
        self.n_violations += other.n_violations
        self.notes |= other.notes
        self.caps.extend(other.caps)
        self.payload.extend(other.payload)
        return self

    @property
    def distinct_nontrivial(self):
        return len(self.nontrivial) + self.nontrivial_count


# ---------------------------------------------------------------------------
# scratch directories
# ---------------------------------------------------------------------------
def scratch_root() -> Path:
    base = "/dev/shm" if os.path.isdir("/dev/shm") and os.access("/dev/shm", os.W_OK) else tempfile.gettempdir()
    return Path(base)


class Scratch:
    """Per-process scratch directory, removed at exit of the context."""

    def __init__(self, tag="x"):
        self.path = Path(tempfile.mkdtemp(prefix=f"mokaverif_{tag}_", dir=scratch_root()))
        self._n = 0

    def sub(self, name=None) -> Path:
        self._n += 1
        p = self.path / (name or f"d{self._n}")
        p.mkdir(parents=True, exist_ok=True)
        return p

    def clean(self, p: Path):
        shutil.rmtree(p, ignore_errors=True)

    def close(self):
        shutil.rmtree(self.path, ignore_errors=True)

    def __enter__(self):
        return self

    def __exit__(self, *a):
        self.close()


_WORKER_SCRATCH = None


def worker_scratch() -> Scratch:
    """One scratch root per worker process (cleaned by the parent at the end)."""
    global _WORKER_SCRATCH
    if _WORKER_SCRATCH is None or _WORKER_SCRATCH[0] != os.getpid():
        if "VERIF_SCRATCH" not in os.environ:  # stand-alone replay tests run without the runner
            import atexit

            root0 = tempfile.mkdtemp(prefix="mokaverif_standalone_", dir=scratch_root())
            os.environ["VERIF_SCRATCH"] = root0
            atexit.register(shutil.rmtree, root0, True)
        root = Path(os.environ["VERIF_SCRATCH"])
        s = Scratch.__new__(Scratch)
        s.path = Path(tempfile.mkdtemp(prefix=f"w{os.getpid()}_", dir=root))
        s._n = 0
        _WORKER_SCRATCH = (os.getpid(), s)
    return _WORKER_SCRATCH[1]


# ---------------------------------------------------------------------------
# parallel map over work items (fork; workers inherit the imported mokapot)
# ---------------------------------------------------------------------------
def _run_item(args):
    fn, item = args
    try:
        return fn(item)
    except BaseException as e:  # harness error: must be loud, never silent
        acc = Acc()
        acc.violation(
            Violation(
                "harness-error",
                f"harness raised {type(e).__name__}: {e}\n{traceback.format_exc()}",
                {"item": repr(item)[:2000]},
            )
        )
        acc.notes.add("HARNESS-ERROR")
        return acc


class Ctx:
    def __init__(self, prop, tier, seed):
        self.prop = prop
        self.tier = tier
        self.seed = seed
        self.acc = Acc()
        self.t0 = time.time()
        self.info = {}  # extra coverage keys (bounds completed, states...)
        self.exhaustive = None
        self.deadline = None

    @property
    def quick(self):
        return self.tier == "quick"

    def rotate(self, items):
        """VERIF_SEED only rotates traversal order; the explored set is fixed."""
        items = list(items)
        if not items:
            return items
        k = self.seed % len(items)
        return items[k:] + items[:k]

    def pmap(self, fn, items, chunksize=1, procs=None):
        items = self.rotate(items)
        procs = min(procs or NPROC, max(1, len(items)))
        if procs == 1 or os.environ.get("VERIF_SERIAL"):
            for it in items:
                self.acc.merge(_run_item((fn, it)))
            return self.acc
        ctx = mp.get_context("fork")
        with ctx.Pool(procs) as pool:
            for acc in pool.imap_unordered(_run_item, [(fn, it) for it in items], chunksize=chunksize):
                self.acc.merge(acc)
        return self.acc

    def elapsed(self):
        return time.time() - self.t0


# ---------------------------------------------------------------------------
# outcome classification (DESIGN section 2, "Outcome classes")
# ---------------------------------------------------------------------------
EXPLICIT = (RuntimeError, ValueError)


_RAISE_LITERALS = None


def raise_literals():
    """Leading string literals of every `raise RuntimeError/ValueError(...)` in the repository's package.
    Used to recognise mokapot's own explicit errors when the traceback was lost at a thread boundary
    (joblib re-raises worker exceptions from its own frames)."""
    global _RAISE_LITERALS
    if _RAISE_LITERALS is None:
        import ast

        lits = set()
        for f in (REPO / "mokapot").rglob("*.py"):
            try:
                tree = ast.parse(f.read_text())
            except Exception:
                continue
            consts = {}
            for node in ast.walk(tree):
                if isinstance(node, ast.Raise) and isinstance(node.exc, ast.Call):
                    name = getattr(node.exc.func, "id", None)
                    if name in ("RuntimeError", "ValueError") and node.exc.args:
                        a = node.exc.args[0]
                        if isinstance(a, ast.JoinedStr) and a.values and isinstance(a.values[0], ast.Constant):
                            a = a.values[0]
                        if isinstance(a, ast.Constant) and isinstance(a.value, str) and len(a.value) >= 12:
                            lits.add(a.value[:40])
        _RAISE_LITERALS = lits
    return _RAISE_LITERALS


def classify_exception(exc: BaseException):
    """('explicit_error'|'crash', description).  Explicit = a `raise` statement inside
    the repository's mokapot package raising RuntimeError/ValueError."""
    tb = exc.__traceback__
    last = None
    while tb is not None:
        last = tb
        tb = tb.tb_next
    where = "?"
    explicit = False
    if last is not None:
        fn = last.tb_frame.f_code.co_filename
        where = f"{os.path.basename(fn)}:{last.tb_frame.f_code.co_name}"
        if type(exc) in EXPLICIT and str(REPO / "mokapot") in fn:
            try:
                import linecache

                # a multi-line raise: walk back a few lines to find the keyword
                ln = last.tb_lineno
                txt = " ".join(linecache.getline(fn, i) for i in range(max(1, ln - 6), ln + 1))
                explicit = "raise" in txt
            except Exception:
                explicit = False
    if not explicit and type(exc) in EXPLICIT:
        msg = str(exc)
        explicit = any(msg.startswith(l) for l in raise_literals())
    desc = f"{type(exc).__name__}@{where}: {str(exc)[:160]}"
    return ("explicit_error" if explicit else "crash"), desc


def exc_signature(exc: BaseException) -> str:
    cls, desc = classify_exception(exc)
    # signature without volatile parts (paths, numbers in messages are kept short)
    tb = exc.__traceback__
    last = None
    while tb is not None:
        if str(REPO / "mokapot") in tb.tb_frame.f_code.co_filename:
            last = tb
        tb = tb.tb_next
    where = "?"
    if last is not None:
        where = f"{os.path.basename(last.tb_frame.f_code.co_filename)}:{last.tb_frame.f_code.co_name}"
    msg = str(exc).split("\n")[0][:60]
    return f"{type(exc).__name__}@{where}:{msg}"
