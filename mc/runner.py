"""Runner: ./check <ID> [--tier quick|thorough] [--replay file]

Exit 0: property held on everything explored (known findings are printed as
`KNOWN-FINDING:` lines).  Exit 1: `VIOLATION property=<id> replay=<path>`.
Evidence is rewritten on every run.
"""

from __future__ import annotations

import argparse
import importlib
import json
import os
import re
import shutil
import subprocess
import sys
import tempfile
import time
from pathlib import Path

VERIF = Path(__file__).resolve().parent.parent

CHECKS = {
    "C01": "c01_tdc",
    "C02": "c02_crossval",
    "C03": "c03_competition",
    "C05": "c05_chunks",
    "C06": "c06_peps",
    "C07": "c07_bestfeat",
    "C08": "c08_determinism",
    "C09": "c09_leftovers",
    "C10": "c10_parse",
    "C11": "c11_calibration",
    "C12": "c12_training",
    "C13": "c13_tabular",
    "C14": "c14_merge",
    "C15": "c15_picked",
    "C16": "c16_grouping",
    "C17": "c17_digest",
    "C18": "c18_decoys",
    "C19": "c19_pin2tsv",
    "C20": "c20_pepxml",
}


def _reexec_if_needed():
    want = {
        "OMP_NUM_THREADS": "1",
        "OPENBLAS_NUM_THREADS": "1",
        "MKL_NUM_THREADS": "1",
        "NUMBA_NUM_THREADS": "1",
        "PYTHONHASHSEED": "0",
        "MOKAPOT_VERIF": "1",
        "PYTHONDONTWRITEBYTECODE": "1",
        "PYTHONWARNINGS": "ignore",
        "NUMBA_CACHE_DIR": str(VERIF / ".numba_cache"),
    }
    if os.environ.get("VERIF_REEXEC") == "1":
        return
    env = dict(os.environ)
    for k, v in want.items():
        env.setdefault(k, v)
    env["VERIF_REEXEC"] = "1"
    os.execve(sys.executable, [sys.executable, "-m", "mc.runner"] + sys.argv[1:], env)


def tree_identity(repo: Path):
    def git(*a):
        try:
            return subprocess.run(
                ["git", "-C", str(repo), *a], capture_output=True, text=True, timeout=30
            ).stdout
        except Exception:
            return ""

    import hashlib

    head = git("rev-parse", "HEAD").strip()
    diff = git("diff", "HEAD", "--", "mokapot")
    return {"head": head, "diff_sha1": hashlib.sha1(diff.encode()).hexdigest()[:12], "dirty": bool(diff.strip())}


def load_known():
    p = VERIF / "known_findings.json"
    if not p.exists():
        return []
    return json.loads(p.read_text()).get("findings", [])


def match_known(prop, v, known):
    for k in known:
        if k.get("property") != prop or k.get("status") != "known":
            continue
        if re.search(k["match"], v["signature"]):
            return k
    return None


def write_replay(prop, v):
    d = VERIF / "replays" / prop
    d.mkdir(parents=True, exist_ok=True)
    key = re.sub(r"[^A-Za-z0-9_-]+", "_", v["signature"])[:80] + "_" + __import__("hashlib").sha1(
        json.dumps(v["case"], sort_keys=True).encode()
    ).hexdigest()[:8]
    path = d / f"{key}.json"
    path.write_text(json.dumps({"property": prop, **v}, indent=1, sort_keys=True))
    test = d / f"test_{key}.py"
    test.write_text(
        f'''"""Stand-alone replay of one recorded violation of {prop} (no explorer involved).
Run:  cd /verif && /venv/bin/python -m pytest -q {test.relative_to(VERIF)}
  or: cd /verif && ./check {prop} --replay {path.relative_to(VERIF)}
"""
import json, sys
from pathlib import Path
sys.path.insert(0, str(Path(__file__).resolve().parents[2]))

def test_replay():
    import mc.runner as r
    rec = json.loads(Path(r"{path}").read_text())
    mod = r.load_check("{prop}")
    bad = r.replay_record(mod, rec)
    assert not bad, bad

if __name__ == "__main__":
    test_replay()
'''
    )
    return path


def load_check(prop):
    sys.path.insert(0, str(VERIF))
    return importlib.import_module("checks." + CHECKS[prop])


def validate_evidence(path: Path):
    vt = shutil.which("python3-vt")
    schema = Path("/root/.vp/EVIDENCE.schema.json")
    if not vt or not schema.exists():
        return "skipped"
    r = subprocess.run(
        [
            vt,
            "-c",
            "import json,sys,jsonschema;"
            "jsonschema.validate(json.load(open(sys.argv[1])),json.load(open(sys.argv[2])))",
            str(path),
            str(schema),
        ],
        capture_output=True,
        text=True,
    )
    return "ok" if r.returncode == 0 else "INVALID: " + r.stderr[-400:]


def _sized(found, value):
    """Context: every listed size constant of every listed module set to `value`."""
    import contextlib
    import importlib

    from mc.datasets import Sized

    st = contextlib.ExitStack()
    for name, names in (found or {}).items():
        st.enter_context(Sized(importlib.import_module(name), value, names))
    return st


def replay_record(mod, rec):
    """Replay one recorded violation (honours the size-constant setting it was found under)."""
    case = rec["case"]
    sz = None
    if isinstance(case, dict) and "_sizes" in case:
        case = dict(case)
        sz = case.pop("_sizes")
    with _sized(sz["constants"] if sz else {}, sz["value"] if sz else None):
        return mod.replay(case)


def _sized_passes(mod, ctx, base_wall):
    """Chunk / batch / buffer size constants that the modules under check have but the check does not vary itself are part
    of the configuration space (mokapot reads them from MOKAPOT_* environment variables): if there are any, the whole
    enumeration is repeated with all of them set to 1, 2, 3 (only 2 when one pass takes more than 30 s).  On the pinned
    tree there are none and this is an empty dimension (recorded in the evidence)."""
    import importlib

    from mc.datasets import DEFAULT_CHUNKS, size_constants

    found = {}
    for name in getattr(mod, "SIZE_MODULES", ()):
        try:
            m = importlib.import_module(name)
        except Exception:
            continue
        names = [k for k in size_constants(m) if k not in DEFAULT_CHUNKS]
        if names:
            found[name] = names
    ctx.info["size_constants_not_varied_by_the_check"] = found
    if not found:
        return
    for v in ((1, 2, 3) if base_wall < 30 else (2,)):
        n0 = len(ctx.acc.violations)
        with _sized(found, v):
            mod.run(ctx)
        for viol in ctx.acc.violations[n0:]:
            if isinstance(viol.get("case"), dict):
                viol["case"]["_sizes"] = {"value": v, "constants": found}
        ctx.acc.count(f"passes_with_size_constants_set_to_{v}")


def main(argv=None):
    ap = argparse.ArgumentParser()
    ap.add_argument("prop")
    ap.add_argument("--tier", default=os.environ.get("VERIF_TIER", "quick"), choices=["quick", "thorough"])
    ap.add_argument("--replay", default=None)
    args = ap.parse_args(argv)
    prop = args.prop.upper()
    if prop not in CHECKS:
        print(f"unknown property {prop}", file=sys.stderr)
        return 2
    _reexec_if_needed()

    sys.path.insert(0, str(VERIF))
    from mc import core

    if str(core.REPO) != "/repo":
        sys.path.insert(0, str(core.REPO))
    import warnings

    warnings.filterwarnings("ignore")
    import logging

    logging.disable(logging.CRITICAL)
    import mokapot

    if not str(Path(mokapot.__file__).resolve()).startswith(str(core.REPO)):
        print(f"mokapot resolves to {mokapot.__file__}, not under {core.REPO}", file=sys.stderr)
        return 2
    # warm the numba kernel once in the parent (children are forked)
    import numpy as np
    from mokapot.qvalues import tdc

    tdc(np.array([2.0, 1.0]), np.array([True, False]))

    try:
        seed = int(os.environ.get("VERIF_SEED", "0"))
    except ValueError:
        seed = 0
    mod = load_check(prop)
    known = load_known()

    if args.replay:
        rec = json.loads(Path(args.replay).read_text())
        scratch = Path(tempfile.mkdtemp(prefix=f"mokaverif_{prop}_", dir=core.scratch_root()))
        os.environ["VERIF_SCRATCH"] = str(scratch)
        try:
            bad = replay_record(mod, rec)
        finally:
            shutil.rmtree(scratch, ignore_errors=True)
        for v in bad:
            print("REPLAY-VIOLATION", v["signature"], "|", v["message"][:300])
        print(f"replay: {len(bad)} violation(s)")
        if bad:
            print(f"VIOLATION property={prop} replay={args.replay}")
        return 1 if bad else 0

    scratch = Path(tempfile.mkdtemp(prefix=f"mokaverif_{prop}_", dir=core.scratch_root()))
    os.environ["VERIF_SCRATCH"] = str(scratch)
    ctx = core.Ctx(prop, args.tier, seed)
    t0 = time.time()
    try:
        mod.run(ctx)
        _sized_passes(mod, ctx, time.time() - t0)
    finally:
        shutil.rmtree(scratch, ignore_errors=True)
    wall = time.time() - t0
    acc = ctx.acc

    # ---- violations vs known findings -----------------------------------
    unknown, known_hit = [], {}
    for v in acc.violations:
        k = match_known(prop, v, known)
        if k is None:
            unknown.append(v)
        else:
            known_hit.setdefault(k["id"], (k, v))
    for kid, (k, v) in sorted(known_hit.items()):
        print(f"KNOWN-FINDING: property={prop} {k['what']} [{kid}]")
    rc = 0
    seen_sig = set()
    unknown.sort(key=lambda v: len(json.dumps(v['case'])))
    for v in unknown:
        if v["signature"] in seen_sig:
            continue
        seen_sig.add(v["signature"])
        path = write_replay(prop, v)
        print(f"  {v['signature']}: {v['message'][:400]}")
        print(f"VIOLATION property={prop} replay={path}")
        rc = 1
        if len(seen_sig) >= 8:
            break

    # ---- evidence -------------------------------------------------------
    coverage = {
        "evaluations": acc.evaluations,
        "distinct_nontrivial": acc.distinct_nontrivial,
        "rule": getattr(mod, "RULE", ""),
        "samples": acc.samples[:12] or [{"note": "no sample recorded"}],
        "exhaustive": bool(ctx.exhaustive) and not acc.caps,
        "distinct_outcomes": len(acc.outcomes),
        "outcome_classes": acc.classes,
        "counters": acc.extra,
        "caps_hit": acc.caps,
        "notes": sorted(acc.notes),
        "known_findings_reported": sorted(known_hit),
        "violations_total_including_known": acc.n_violations,
        "tree": tree_identity(core.REPO),
        "repo": str(core.REPO),
    }
    coverage.update(ctx.info)
    ev = {
        "property_id": prop,
        "tier": args.tier,
        "seed": seed,
        "level": getattr(mod, "LEVEL", "exploration"),
        "coverage": coverage,
        "assumptions": list(getattr(mod, "ASSUMPTIONS", [])),
        "wall_s": round(wall, 2),
        "violations": len(seen_sig),
    }
    # runs against another checkout (mutation demos) must not overwrite the evidence about /repo
    evdir = VERIF / ("evidence" if str(core.REPO) == "/repo" else "evidence_mut")
    evdir.mkdir(exist_ok=True)
    evp = evdir / f"{prop}.json"
    evp.write_text(json.dumps(core.jsonable(ev), indent=1))
    val = validate_evidence(evp)
    print(
        f"{prop} tier={args.tier} seed={seed} evaluations={acc.evaluations} "
        f"distinct_nontrivial={acc.distinct_nontrivial} outcomes={len(acc.outcomes)} "
        f"classes={acc.classes} counters={acc.extra} violations={len(seen_sig)} "
        f"known={sorted(known_hit)} wall={wall:.1f}s evidence={val}"
    )
    if val.startswith("INVALID"):
        print("evidence file does not validate", file=sys.stderr)
        return 3
    if "HARNESS-ERROR" in acc.notes:
        return rc or 1
    return rc


if __name__ == "__main__":
    sys.exit(main())
