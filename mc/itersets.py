"""E4 - controlled iteration order of hash sets (DESIGN.md section 2).

The code under test iterates `set`s of strings; the order is a function of the process' hash
seed and of the insertion history.  Instead of sampling PYTHONHASHSEED the harness *owns* that
order: inside a module (mokapot.parsers.fasta) the global name `set` is shadowed by
`ControlledSet`, a subclass of the builtin whose `__iter__` asks the active `Explorer` which
permutation of its elements to deliver.  The default (option 0) is the sorted order.  Every
iteration of a set with >= 2 elements is one *choice point* with len! options.

Exploration is deviation-bounded, exactly like the scheduler of E2: one run with every choice
at its default, then for every choice point of that run every non-default option (bound 1),
then from every such run every non-default option at every *later* choice point (bound 2) ...
Each run is a fresh execution of the real function with a forced choice prefix; a run that
meets, inside the recorded prefix, a set of a different size than the parent run recorded (or
that never reaches a forced choice point) raises `ReplayDivergence` - a hard error, never
swallowed.

Only names bound through the module global are affected: set literals / comprehensions
(`{a, b}`) stay builtin sets; whatever is derived from a ControlledSet by union / intersection /
difference / copy stays a ControlledSet (also through the unbound call `set.intersection(*sets)`).
"""

from __future__ import annotations

import math
from contextlib import contextmanager

_builtin_set = set
MAX_ELEMS = 6  # 720 options; larger sets are a harness error (the explored spaces never produce them)


class ReplayDivergence(RuntimeError):
    """A forced-prefix replay did not meet the choice points its parent run recorded."""


class Explorer:
    """Decides one execution: option 0 everywhere except at the forced choice-point indices."""

    def __init__(self, forced=None, expect=None):
        self.forced = {int(k): int(v) for k, v in (forced or {}).items()}
        self.expect = list(expect) if expect is not None else None
        self.trace = []  # number of elements of the set iterated at each choice point
        self.delivered = 0  # non-default orders actually delivered

    def choose(self, n):
        i = len(self.trace)
        if n > MAX_ELEMS:
            raise ReplayDivergence(f"set with {n} > {MAX_ELEMS} elements iterated at choice point {i}")
        if self.expect is not None and i < len(self.expect) and self.expect[i] != n:
            raise ReplayDivergence(
                f"choice point {i}: set of {n} elements, the recorded run had {self.expect[i]} "
                f"(forced={self.forced})"
            )
        self.trace.append(n)
        k = self.forced.get(i, 0)
        if k:
            if not 0 < k < math.factorial(n):
                raise ReplayDivergence(f"choice point {i}: option {k} out of range for {n} elements")
            self.delivered += 1
        return k

    def finish(self):
        """Call after the execution: every forced choice point must have been reached."""
        if self.expect is not None and len(self.trace) < len(self.expect):
            raise ReplayDivergence(
                f"run ended after {len(self.trace)} choice points, the recorded prefix has {len(self.expect)}"
            )
        if self.forced and max(self.forced) >= len(self.trace):
            raise ReplayDivergence(f"forced choice point {max(self.forced)} never reached ({len(self.trace)} met)")
        return self

    def options(self, i):
        return math.factorial(self.trace[i])


_ACTIVE = None  # the Explorer of the execution in progress (one per process; executions are sequential)


def nth_permutation(items, k):
    """k-th permutation (lexicographic in positions) of the list `items`; k = 0 is `items` itself."""
    items = list(items)
    out = []
    for m in range(len(items), 0, -1):
        f = math.factorial(m - 1)
        j, k = divmod(k, f)
        out.append(items.pop(j))
    return out


def _sort_key(x):
    return (type(x).__name__, x)


def _default_order(s):
    elems = list(_builtin_set.__iter__(s))
    try:
        return sorted(elems, key=_sort_key)
    except TypeError:
        return sorted(elems, key=repr)


def _guarded(s, items):
    n = len(items)
    for x in items:
        if len(s) != n:  # same contract as the builtin iterator
            raise RuntimeError("Set changed size during iteration")
        yield x


class ControlledSet(_builtin_set):
    """A builtin set whose iteration order is chosen by the active Explorer."""

    __slots__ = ()

    def __iter__(self):
        items = _default_order(self)
        if len(items) >= 2 and _ACTIVE is not None:
            k = _ACTIVE.choose(len(items))
            if k:
                items = nth_permutation(items, k)
        return _guarded(self, items)

    def pop(self):
        if not self:
            raise KeyError("pop from an empty set")
        x = next(iter(self))
        self.remove(x)
        return x

    # everything derived from a controlled set stays controlled (self may be any set: unbound calls)
    def copy(self):
        return ControlledSet(_builtin_set.copy(self))

    def union(self, *others):
        return ControlledSet(_builtin_set.union(self, *others))

    def intersection(self, *others):
        return ControlledSet(_builtin_set.intersection(self, *others))

    def difference(self, *others):
        return ControlledSet(_builtin_set.difference(self, *others))

    def symmetric_difference(self, other):
        return ControlledSet(_builtin_set.symmetric_difference(self, other))

    def __or__(self, other):
        r = _builtin_set.__or__(self, other)
        return r if r is NotImplemented else ControlledSet(r)

    def __and__(self, other):
        r = _builtin_set.__and__(self, other)
        return r if r is NotImplemented else ControlledSet(r)

    def __sub__(self, other):
        r = _builtin_set.__sub__(self, other)
        return r if r is NotImplemented else ControlledSet(r)

    def __xor__(self, other):
        r = _builtin_set.__xor__(self, other)
        return r if r is NotImplemented else ControlledSet(r)

    __ror__ = __or__
    __rand__ = __and__
    __rxor__ = __xor__

    def __rsub__(self, other):
        r = _builtin_set.__rsub__(self, other)
        return r if r is NotImplemented else ControlledSet(r)

    def __reduce__(self):
        return (ControlledSet, (list(_builtin_set.__iter__(self)),))


@contextmanager
def shadow_set(module, explorer):
    """Bind `module.set` to ControlledSet and make `explorer` the active one; restored afterwards."""
    global _ACTIVE
    had = "set" in module.__dict__
    old = module.__dict__.get("set")
    prev = _ACTIVE
    module.set = ControlledSet
    _ACTIVE = explorer
    try:
        yield explorer
    finally:
        _ACTIVE = prev
        if had:
            module.set = old
        else:
            del module.set


def explore(execute, max_dev):
    """Deviation-bounded exploration.  `execute(explorer)` must run the code under test once, freshly,
    under `shadow_set(module, explorer)` and return its outcome (exceptions of the code under test are the
    caller's business; ReplayDivergence must not be caught).  Yields (explorer, outcome) for the default
    run first, then all runs with 1, 2, ... max_dev forced non-default choices (each bound completed
    before the next starts)."""
    ex0 = Explorer()
    out0 = execute(ex0)
    ex0.finish()
    yield ex0, out0
    frontier = [ex0]
    for depth in range(1, max_dev + 1):
        nxt = []
        for parent in frontier:
            start = max(parent.forced) + 1 if parent.forced else 0
            for i in range(start, len(parent.trace)):
                for k in range(1, parent.options(i)):
                    ex = Explorer(forced={**parent.forced, i: k}, expect=parent.trace[: i + 1])
                    out = execute(ex)
                    ex.finish()
                    yield ex, out
                    if depth < max_dev:
                        nxt.append(ex)
        frontier = nxt


def run_forced(execute, forced, expect=None):
    """Re-run exactly one recorded execution (replay)."""
    ex = Explorer(forced=forced, expect=expect)
    out = execute(ex)
    ex.finish()
    return ex, out
