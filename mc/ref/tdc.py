"""Reference model of target-decoy-competition q-values (C01), exact rationals.

q_i = min(1, min over distinct scores t at-or-worse than s_i of (D(t)+1)/T(t)),
D/T = decoys/targets scoring at-or-better than t; the term is 1 where T(t) = 0.
Rationals are (num, den) int pairs compared by cross multiplication.
"""

from __future__ import annotations


def ref_qvalues(scores, targets, desc=True):
    """scores: sequence of comparable values; targets: sequence of truthy/falsy.
    Returns a list of (num, den) pairs, one per input position."""
    n = len(scores)
    levels = sorted(set(scores), reverse=desc)  # best -> worst
    pos = {s: j for j, s in enumerate(levels)}
    t_at = [0] * len(levels)
    d_at = [0] * len(levels)
    for s, t in zip(scores, targets):
        if t:
            t_at[pos[s]] += 1
        else:
            d_at[pos[s]] += 1
    T = D = 0
    fdr = []
    for j in range(len(levels)):
        T += t_at[j]
        D += d_at[j]
        if T == 0 or D + 1 >= T:
            fdr.append((1, 1))
        else:
            fdr.append((D + 1, T))
    q = [None] * len(levels)
    cur = (1, 1)
    for j in range(len(levels) - 1, -1, -1):
        a, b = fdr[j]
        c, d = cur
        if a * d < c * b:
            cur = (a, b)
        q[j] = cur
    return [q[pos[s]] for s in scores]


def as_float(q):
    return [a / b for a, b in q]


def ref_labels(scores, targets, thr_num, thr_den, desc=True):
    """+1 target with q <= thr, -1 decoy, 0 other target.  thr as a rational."""
    q = ref_qvalues(scores, targets, desc)
    out = []
    for (a, b), t in zip(q, targets):
        if not t:
            out.append(-1)
        elif a * thr_den <= thr_num * b:
            out.append(1)
        else:
            out.append(0)
    return out
