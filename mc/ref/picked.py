"""Reference for the picked-protein step (C15), written from the statement.

Inputs (all produced by the harness, never by the code under test):
  prot_peps   {protein name: frozenset(peptides)} of the database (targets and prefixed decoys)
  prefix      the decoy prefix
  rows        peptide table: dicts with  written (the string in the table), plain (the bare
              sequence the harness decorated), score (pairwise distinct floats), target (bool)

Model:  protein groups = maximal peptide sets (mc/ref/grouping.py);  a peptide is *unique* iff
exactly one group contains it;  the decoy counterpart of a target group is the decoy group whose
defining members are prefix + the target group's defining members (defining = proteins whose
peptide set IS the group's set);  for every pair {target group, counterpart} that has >= 1
retained unique peptide there is exactly one entry: the group owning the best-scoring retained
unique peptide, that peptide as written, its plain sequence, its score, and the class of the
owner.  Shared peptides never contribute.  q-values: C01 reference over the entries.
"""

from __future__ import annotations

import re

from mc.ref.grouping import ref_grouping
from mc.ref.tdc import ref_qvalues


def ref_strip(written):
    """Notation of the harness -> bare sequence: drop [...] and (...), drop one flanking token before the
    first '.' and after the last '.', drop lower-case tags.  (Self-check of the generator only.)"""
    s = re.sub(r"\[[^\]]*\]|\([^)]*\)", "", written)
    parts = s.split(".")
    if len(parts) == 3:
        s = parts[1]
    return "".join(ch for ch in s if not ch.islower())


class Model:
    def __init__(self, prot_peps, prefix):
        self.prefix = prefix
        self.prot_peps = prot_peps
        groups, count = ref_grouping(prot_peps)
        # group id = its peptide set
        self.groups = groups  # pepset -> (must, may)
        self.is_target = {g: not next(iter(must)).startswith(prefix) for g, (must, may) in groups.items()}
        for g, (must, may) in groups.items():
            kinds = {m.startswith(prefix) for m in must}
            assert len(kinds) == 1, "a group with target and decoy members is outside C15's databases"
        self.unique = {}  # peptide -> owning group
        self.shared = set()
        for g in groups:
            for pep in g:
                if count[pep] == 1:
                    self.unique[pep] = g
                else:
                    self.shared.add(pep)
        # pairs: keyed by the target group's defining members
        self.pair_of = {}
        by_must = {must: g for g, (must, may) in groups.items()}
        self.pairs = {}
        for g, (must, may) in groups.items():
            if self.is_target[g]:
                d = by_must.get(frozenset(prefix + m for m in must))
                key = must
                self.pairs[key] = (g, d)
                self.pair_of[g] = key
                if d is not None:
                    self.pair_of[d] = key
        for g in groups:
            if g not in self.pair_of:  # a decoy group without a target counterpart: a pair of its own
                key = groups[g][0]
                self.pairs[key] = (None, g)
                self.pair_of[g] = key

    def group_of_members(self, members):
        """The reference group an observed member set denotes (must <= members <= may), or None."""
        members = frozenset(members)
        hits = [g for g, (must, may) in self.groups.items() if must <= members <= may]
        return hits[0] if len(hits) == 1 else None

    def expected(self, rows):
        """{pair key: dict(group=pepset, written, plain, score, target)}"""
        best = {}
        for r in rows:
            g = self.unique.get(r["plain"])
            if g is None:
                continue
            k = self.pair_of[g]
            if k not in best or r["score"] > best[k]["score"]:
                best[k] = dict(group=g, written=r["written"], plain=r["plain"], score=r["score"],
                               target=self.is_target[g])
        return best

    def unmapped(self, rows):
        return [r for r in rows if r["plain"] not in self.unique and r["plain"] not in self.shared]


def members_str(ms):
    return "{" + ",".join(sorted(ms)) + "}"


def compare_entries(model, rows, observed):
    """observed: list of dicts(group=str, best=str, stripped=str, score=float, target=bool or None).
    Returns (problems [(signature, message)], matched {pair key: observed entry})."""
    problems = []
    add = lambda s, m: problems.append((s, m))
    exp = model.expected(rows)
    by_pair = {}
    for o in observed:
        members = frozenset(str(o["group"]).split(", "))
        g = model.group_of_members(members)
        if o["stripped"] in model.shared or ("; " in str(o["group"])):
            add("picked-shared-peptide-used",
                f"entry {o['group']!r} reports {o['best']!r} ({o['stripped']}), a peptide shared between protein groups")
            continue
        if g is None:
            add("picked-unknown-group", f"entry names group {o['group']!r}, which is no protein group of the database")
            continue
        o = dict(o, ref_group=g)
        by_pair.setdefault(model.pair_of[g], []).append(o)
    matched = {}
    for k, obs in by_pair.items():
        if len(obs) > 1:
            # recognisable sub-case: both halves are present and correctly formed, but their member lists start
            # with proteins that are not each other's counterpart (the lists are ordered differently)
            sig = "picked-pair-twice"
            tg = [o for o in obs if model.is_target[o["ref_group"]]]
            dg = [o for o in obs if not model.is_target[o["ref_group"]]]
            if len(tg) == 1 and len(dg) == 1:
                t_names = str(tg[0]["group"]).split(", ")
                d_names = str(dg[0]["group"]).split(", ")
                if (sorted(model.prefix + n for n in t_names) == sorted(d_names)
                        and model.prefix + t_names[0] != d_names[0]):
                    sig = "picked-pair-twice:member-lists-ordered-differently"
            add(sig,
                f"the pair of target group {members_str(k)} has {len(obs)} entries: {[o['group'] for o in obs]} "
                f"(peptides {[o['best'] for o in obs]})")
            continue
        o = obs[0]
        e = exp.get(k)
        if e is None:
            add("picked-unexpected-entry",
                f"entry {o['group']!r} ({o['best']!r}) but no unique peptide of that pair is in the table")
            continue
        matched[k] = o
        if o["best"] != e["written"]:
            add("picked-not-best-peptide",
                f"pair {members_str(k)}: reports {o['best']!r} (score {o['score']}), the best-scoring unique peptide "
                f"of the pair is {e['written']!r} (score {e['score']})")
            continue
        if o["ref_group"] != e["group"]:
            add("picked-wrong-group", f"pair {members_str(k)}: peptide {e['written']!r} belongs to the "
                f"{'target' if e['target'] else 'decoy'} group, the entry names {o['group']!r}")
        if o["stripped"] != e["plain"]:
            add("picked-stripped-wrong", f"stripped sequence of {e['written']!r} is reported as {o['stripped']!r}, "
                f"expected {e['plain']!r}")
        if abs(float(o["score"]) - e["score"]) > 1e-9:
            add("picked-score-wrong", f"entry {o['group']!r}: score {o['score']} but {e['written']!r} scored {e['score']}")
        if o.get("target") is not None and bool(o["target"]) != e["target"]:
            add("picked-label-wrong", f"entry {o['group']!r} is labelled target={o['target']}")
    for k, e in exp.items():
        if k not in by_pair:
            add("picked-pair-missing", f"no entry for the pair of {members_str(k)} although {e['written']!r} "
                "(unique) is in the table")
    return problems, matched, exp


def ref_entry_qvalues(exp):
    """{pair key: (num, den)} C01 q-values over exactly the expected entries (higher score = better)."""
    keys = list(exp)
    q = ref_qvalues([exp[k]["score"] for k in keys], [exp[k]["target"] for k in keys], True)
    return dict(zip(keys, q))
