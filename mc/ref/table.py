"""Reference model of tables for C13: a table is a list of column names plus a list of row tuples.

Nothing here imports mokapot.  Input files are written with plain Python / pyarrow, never with
the writers under test.
"""

from __future__ import annotations

import itertools

COLS = ["i", "f", "s", "b"]  # int, float, string, bool
# Clearly typed values: non-monotone ints, dyadic floats (exact through any decimal round trip),
# strings that cannot be taken for numbers / booleans / NA markers.
ROWS = [
    (30, 0.5, "pep_a", True),
    (10, -2.75, "pep_b", False),
    (50, 1.25, "pep_c", False),
    (20, 100.125, "pep_d", True),
    (40, -0.0625, "pep_e", True),
    (70, 3.5, "pep_f", False),
    (60, 8.375, "pep_g", True),
    (80, -16.5, "pep_h", False),
]
COMPUTED = "c"


def table(n):
    return ROWS[:n]


def project(rows, want, have=COLS):
    idx = [have.index(c) for c in want]
    return [tuple(r[j] for j in idx) for r in rows]


def computed_value(present):
    """The computed column: a row-wise pure function of the columns handed to it (it gets the
    *requested* other columns only): 2*i + 0.5 when `i` is among them, else the constant -1.0."""
    return (lambda r: 2 * r["i"] + 0.5) if "i" in present else (lambda r: -1.0)


def project_computed(rows, want):
    others = [c for c in want if c != COMPUTED]
    f = computed_value(others)
    out = []
    for r in rows:
        d = dict(zip(COLS, r))
        d[COMPUTED] = f(d)
        out.append(tuple(d[c] for c in want))
    return out


def column_requests(cols, kmax, with_none=True):
    """None (= all columns) and every ordered subset of 1..kmax columns."""
    req = [None] if with_none else []
    for k in range(1, kmax + 1):
        req += [list(p) for p in itertools.permutations(cols, k)]
    return req


def n_chunks(n, chunk):
    return -(-n // chunk)


def append_sequences(n, max_zeros):
    """Every composition of n rows into a sequence of append sizes, with up to max_zeros empty
    appends inserted at any positions (n = 0: only sequences of empty appends, incl. none)."""
    comps = [()] if n == 0 else []
    if n > 0:
        for cuts in itertools.product((0, 1), repeat=n - 1):
            parts, run = [], 1
            for c in cuts:
                if c:
                    parts.append(run)
                    run = 1
                else:
                    run += 1
            parts.append(run)
            comps.append(tuple(parts))
    out = set()
    for comp in comps:
        for z in range(max_zeros + 1):
            for gaps in itertools.combinations_with_replacement(range(len(comp) + 1), z):
                seq = []
                for g in range(len(comp) + 1):
                    seq += [0] * gaps.count(g)
                    if g < len(comp):
                        seq.append(comp[g])
                out.add(tuple(seq))
    return sorted(out, key=lambda s: (len(s), s))


def py(v):
    """numpy scalar -> python scalar."""
    return v.item() if hasattr(v, "item") else v


def frame_rows(df):
    return [tuple(py(v) for v in row) for row in df.itertuples(index=False, name=None)]


def same_value(a, b):
    """Equal values of the same kind (True is not 1, 'x' is not a number)."""
    if isinstance(a, bool) != isinstance(b, bool) or isinstance(a, str) != isinstance(b, str):
        return False
    return a == b


def same_rows(a, b):
    return len(a) == len(b) and all(
        len(x) == len(y) and all(same_value(u, v) for u, v in zip(x, y)) for x, y in zip(a, b)
    )


def write_text(path, cols, rows, sep="\t"):
    with open(path, "w") as fh:
        fh.write(sep.join(cols) + "\n")
        for r in rows:
            fh.write(sep.join(repr(v) if isinstance(v, float) else str(v) for v in r) + "\n")
