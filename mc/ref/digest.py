"""Reference model of in-silico digestion (C17), written from the statement, not from the code.

Cleavage sites  S = sorted DISTINCT {0, len(seq)} U {m.end() for every pattern match}.
Enzymatic peptide  p = seq[S[i]:S[j]], i < j, j - i - 1 <= missed cleavages (sites skipped).
It qualifies iff min_length <= len(p) <= max_length.

must (every implementation has to return these):
  * every qualifying enzymatic peptide;
  * clip: p[1:] for every qualifying p that starts at 0 with "M", if len(p[1:]) >= min_length;
  * semi: every proper prefix and proper suffix f of a qualifying p with len(f) >= min_length
    (f is shorter than p, so it is automatically <= max_length).
may (the statement does not decide; accepted but not demanded):
  * clip: p[1:] of an N-terminal enzymatic "M..." peptide that is itself one residue too long
    (reading "qualifying" as "the clipped form fits the bounds");
  * semi: proper prefixes/suffixes (>= min_length) of any clipped form (reading "such a peptide"
    as including clipped forms; the suffixes are demanded anyway).
Nothing else may be returned.

All derived strings are shorter than their parent, hence one rule covers every form:
a string s with parent peptide p is present iff  min_length <= len(s)  and  len(p) <= max_length
(the parent of an enzymatic peptide is itself; in the lax reading a clipped form is its own parent).
`ref_items` lists (s, len(parent)) once per (sequence, sites, mc, clip, semi); `select` applies
the bounds.  `ref_digest_plain` is the same definition spelled out literally, used to cross-check.
"""

from __future__ import annotations

import re


def ref_sites(seq, pattern):
    rx = re.compile(pattern) if isinstance(pattern, str) else pattern
    return sorted({0, len(seq)} | {m.end() for m in rx.finditer(seq)})


def enzymatic(seq, sites, mc):
    """(start, peptide) for every pair of distinct sites with at most mc sites in between."""
    out = []
    for i in range(len(sites)):
        for j in range(i + 1, min(i + mc + 1, len(sites) - 1) + 1):
            out.append((sites[i], seq[sites[i]:sites[j]]))
    return out


def fragments(p):
    """Proper, non-empty prefixes and suffixes of p."""
    return [p[:k] for k in range(1, len(p))] + [p[k:] for k in range(1, len(p))]


def ref_items(seq, sites, mc, clip, semi):
    must, may = [], []
    for start, p in enzymatic(seq, sites, mc):
        must.append((p, len(p)))
        if semi:
            must += [(f, len(p)) for f in fragments(p)]
        if clip and start == 0 and p.startswith("M"):
            c = p[1:]
            must.append((c, len(p)))
            may.append((c, len(c)))
            if semi:
                may += [(f, len(c)) for f in fragments(c)]
    return must, may


def select(items, min_length, max_length):
    return {s for s, parent_len in items if min_length <= len(s) and parent_len <= max_length}


def ref_digest(seq, pattern, mc, min_length, max_length, clip, semi):
    """(must, allowed): must <= digest(...) <= allowed is what the statement requires."""
    must, may = ref_items(seq, ref_sites(seq, pattern), mc, clip, semi)
    m = select(must, min_length, max_length)
    return m, m | select(may, min_length, max_length)


def ref_digest_plain(seq, pattern, mc, min_length, max_length, clip, semi):
    """The definition, literally (slow)."""

    def fits(s):
        return min_length <= len(s) <= max_length

    must, may = set(), set()
    for start, p in enzymatic(seq, ref_sites(seq, pattern), mc):
        if fits(p):
            must.add(p)
            if semi:
                must |= {f for f in fragments(p) if len(f) >= min_length}
        if clip and start == 0 and p.startswith("M"):
            c = p[1:]
            if fits(p) and len(c) >= min_length:
                must.add(c)
            if fits(c):
                may.add(c)
                if semi:
                    may |= {f for f in fragments(c) if len(f) >= min_length}
    return must, must | may
