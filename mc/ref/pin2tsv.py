"""Reference model of PIN -> rectangular TSV conversion and of the validity predicate (C19).

A PIN text is described by a small spec (the generator knows what it wrote):
    nfeat  number of feature columns                      pidx  index of the "Proteins" column
    rows   protein count of every PSM row (0 = a line that lacks the protein field; validity only)
    dd     "none" | "short" (3 + nfeat fields, as in the Percolator wiki) | "full" (padded to header width)
    nl     trailing newline after the last line
    ws     optional: one character (a blank, or a character that str.splitlines / str.split() treat as a
           separator although the tab-delimited format does not: \x0b \x0c \x1c-\x1e \x85 U+2028 U+2029)
           placed INSIDE the SpecId field, the Peptide field and the first protein accession of every row -
           never at the start or end of a line, so stripping a line cannot touch it
Fields are non-empty and contain no tab / CR / LF; every cell except Label identifies its row and column.
"""

from __future__ import annotations

TAB = "\t"


def build(spec):
    """(header fields, DefaultDirection fields or None, [(non-protein fields, proteins)])."""
    nfeat, pidx = spec["nfeat"], spec["pidx"]
    cols = ["SpecId", "Label", "ScanNr"] + [f"feat{j}" for j in range(nfeat)] + ["Peptide"]
    header = cols[:pidx] + ["Proteins"] + cols[pidx:]
    dd = None
    if spec["dd"] != "none":
        dd = ["DefaultDirection", "-", "-"] + [f"0.{j}5" for j in range(nfeat)]
        if spec["dd"] == "full":
            dd += ["-"] * (len(header) - len(dd))
    rows = []
    ws = spec.get("ws") or ""
    for i, nprot in enumerate(spec["rows"]):
        fields = [f"t_{i}{ws or '_'}77_2_-1", "1" if i % 2 == 0 else "-1", str(100 + i)]
        fields += [f"{i}.{j}25" for j in range(nfeat)] + [f"K.PEPT{'I' * i}{ws}DE.R"]
        rows.append((fields, [f"sp|Q{i}{k}|PR{k}{ws if k == 0 else ''}_HUMAN" for k in range(nprot)]))
    return header, dd, rows


def render_pin(spec):
    header, dd, rows = build(spec)
    k = spec["pidx"]
    lines = [header] + ([dd] if dd else []) + [f[:k] + prots + f[k:] for f, prots in rows]
    return "\n".join(TAB.join(line) for line in lines) + ("\n" if spec["nl"] else "")


def expected_lines(spec, sep=":"):
    """What the statement promises: header, then one line per PSM, proteins joined in place."""
    header, _, rows = build(spec)
    k = spec["pidx"]
    return [TAB.join(header)] + [TAB.join(f[:k] + [sep.join(prots)] + f[k:]) for f, prots in rows]


def text_lines(text):
    lines = text.split("\n")
    if lines and lines[-1] == "":
        lines.pop()
    return lines


def is_dd(line):
    return line.split(TAB)[0] == "DefaultDirection"


def ref_convert(text, sep=":"):
    """Text-level reference converter: the fields after the protein column are counted from the end."""
    lines = text_lines(text)
    cols = lines[0].split(TAB)
    k = cols.index("Proteins")
    after = len(cols) - 1 - k
    body = lines[1:]
    if body and is_dd(body[0]):
        body = body[1:]
    out = [lines[0]]
    for line in body:
        f = line.split(TAB)
        tail = f[len(f) - after:] if after else []
        out.append(TAB.join(f[:k] + [sep.join(f[k:len(f) - after])] + tail))
    return out


def ref_is_valid(text):
    """Valid <=> every line has the header's field count and the second line is no DefaultDirection line."""
    lines = text_lines(text)
    width = len(lines[0].split(TAB))
    return not is_dd(lines[1]) and all(len(line.split(TAB)) == width for line in lines[1:])
