"""Reference for competition / roll-up (C03): validation of a *selection*.

A row is a dict with keys id, spectrum (hashable), label (bool), score (float) and one key per level
column (peptide, ModifiedPeptide, ...).  All functions are tie-sound: where several rows of a group
share the maximal score any of them is an acceptable winner.
"""

from __future__ import annotations

from collections import defaultdict


def has_group_ties(rows, key):
    best = defaultdict(list)
    for r in rows:
        best[key(r)].append(r["score"])
    return any(sorted(v)[-1] == sorted(v)[-2] for v in best.values() if len(v) > 1)


def unique_selection(rows, key):
    """The unique best row per group (caller guarantees no ties at the top of a group)."""
    best = {}
    for r in rows:
        k = key(r)
        if k not in best or r["score"] > best[k]["score"]:
            best[k] = r
    return {r["id"] for r in best.values()}


def check_selection(pool, selected_ids, key, what):
    """`selected_ids` must pick exactly one maximal-score row per group of `pool`.
    Returns a list of (signature, message)."""
    errs = []
    by_id = {r["id"]: r for r in pool}
    stray = [i for i in selected_ids if i not in by_id]
    if stray:
        errs.append((f"{what}-row-not-in-pool", f"{what}: rows {sorted(stray)[:4]} were not retained at the level below / not in the input"))
    groups = defaultdict(list)
    for r in pool:
        groups[key(r)].append(r)
    chosen = defaultdict(list)
    for i in selected_ids:
        if i in by_id:
            chosen[key(by_id[i])].append(by_id[i])
    for k, members in groups.items():
        c = chosen.get(k, [])
        if len(c) == 0:
            errs.append((f"{what}-entity-missing", f"{what}: no row for entity {k!r}"))
        elif len(c) > 1:
            errs.append((f"{what}-entity-duplicated", f"{what}: {len(c)} rows for entity {k!r}"))
        else:
            top = max(m["score"] for m in members)
            if c[0]["score"] != top:
                errs.append((f"{what}-not-best", f"{what}: entity {k!r} kept score {c[0]['score']} but best is {top}"))
    return errs
