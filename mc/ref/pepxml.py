"""PepXML document builder that knows what it wrote (reference side of C20).

`build(cfg)` returns (texts, rows): one XML text per input file and, in document order, one
expected record per search hit, derived from the property statement only:
the spectrum's scan / charge / retention time / precursor mass, the run's data-file name, the
peptide with "[mass]" directly after every modified residue, the accessions (text up to the
first space) of the primary and alternative proteins, the written score values, and
label = False iff every protein carries the decoy prefix.
"""

from __future__ import annotations

import itertools

XMLNS = "http://regis-web.systemsbiology.net/pepXML"
MODSETS = [c for n in range(4) for c in itertools.combinations((1, 3, 5), n)]  # ascending positions
PROTS = ["".join(p) for n in (1, 2, 3) for p in itertools.product("TD", repeat=n)]  # primary + alternatives
MASS = {1: "160.0307", 3: "15.99", 5: "114.042927"}  # distinct masses, different string lengths
PEPS = ["ACDEFK", "GHILMR", "NPQSTK", "VWYACR", "DEFGHK", "ILMNPR", "QSTVWK", "YACDER"]
PV = ["0.5", "0.00002", "0.003", "0.11", "0.0000007", "0.04", "0.9", "0.00015"]
PV_SCI = ["5.0e-01", "2.0e-05", "3.0e-03", "1.1e-01", "7.0e-07", "4.0e-02", "9.0e-01", "1.5e-04"]

# default configuration and, per dimension, the alternative values (deviations)
DEFAULT = dict(ns=True, files=1, runs=1, spectra=1, hits=1, mods=(), prots="T", prefix="decoy_",
               desc=False, tricky=False, rotate=False, missed=True, ntt=True, nmatched=True,
               ext_in_base=False, scores="plain", results=1, stem_tail="", run_order="asc")
DIMS = dict(ns=[False], files=[2], runs=[2], spectra=[2], hits=[2], mods=MODSETS[1:], prots=PROTS[1:],
            prefix=["rev_"], desc=[True], tricky=[True], rotate=[True], missed=[False], ntt=[False],
            nmatched=[False], ext_in_base=[True], scores=["pvalue", "pvalue_sci"],
            # hits of one spectrum query spread over several <search_result> elements (one per search_id; schema-legal)
            results=[2],
            # run names ending in a character that also occurs in the extension (".mzML"): suffix vs character-set handling
            stem_tail=["_repL", "_m"],
            # runs of one file listed in an order that is not the lexical order of their names (acquisition order)
            run_order=["desc"])


def accession(is_target, prefix, tricky, g, j):
    if not is_target:
        return f"{prefix}sp|P{g}{j}|PROT_HUMAN"
    if tricky:  # a target that starts with the *other* usual prefix and has the prefix inside
        other = "rev_" if prefix == "decoy_" else "decoy_"
        return f"{other}sp|P{g}{j}|x_{prefix}inside"
    return f"sp|P{g}{j}|PROT_HUMAN"


def build(cfg):
    c = dict(DEFAULT, **cfg)
    c["mods"] = tuple(c["mods"])
    ns = f' xmlns="{XMLNS}"' if c["ns"] else ""
    texts, rows = [], []
    g = k = 0  # global hit / spectrum counters
    for f in range(c["files"]):
        x = ['<?xml version="1.0" encoding="UTF-8"?>',
             f'<msms_pipeline_analysis date="2020-01-01T00:00:00"{ns} summary_xml="file{f}.pepXML">']
        for r in range(c["runs"]):
            rn = r if c["run_order"] == "asc" else c["runs"] - 1 - r
            stem = f"/data/exp{f}/run{rn}" + c["stem_tail"]
            base = stem + ".mzML" if c["ext_in_base"] else stem
            x.append(f'<msms_run_summary base_name="{base}" raw_data_type="raw" raw_data=".mzML">')
            x.append('<sample_enzyme name="Trypsin"><specificity cut="KR" no_cut="P" sense="C"/></sample_enzyme>')
            x.append(f'<search_summary base_name="{base}" search_engine="X! Tandem" precursor_mass_type='
                     '"monoisotopic" fragment_mass_type="monoisotopic" search_id="1">'
                     '<search_database local_path="/db.fasta" type="AA"/></search_summary>')
            for s in range(c["spectra"]):
                scan, charge = 100 + 7 * k, 2 + k % 2
                rt, mass = f"{600.25 + 31.5 * k:.3f}", f"{1200.4321 + 111.111 * k:.4f}"
                x.append(f'<spectrum_query spectrum="run{rn}.{scan}.{scan}.{charge}" start_scan="{scan}" '
                         f'end_scan="{scan}" precursor_neutral_mass="{mass}" assumed_charge="{charge}" '
                         f'index="{s + 1}" retention_time_sec="{rt}">')
                x.append("<search_result>")
                for h in range(c["hits"] * c["results"]):
                    if h and h % c["hits"] == 0:
                        x += ["</search_result>", f'<search_result search_id="{h // c["hits"] + 1}">']
                    rot = g if c["rotate"] else 0
                    mods = MODSETS[(MODSETS.index(c["mods"]) + rot) % len(MODSETS)]
                    prots = PROTS[(PROTS.index(c["prots"]) + rot) % len(PROTS)]
                    pep = PEPS[g % len(PEPS)]
                    masses = {p: MASS[p] + str(g) for p in mods}
                    accs = [accession(t == "T", c["prefix"], c["tricky"], g, j) for j, t in enumerate(prots)]
                    attr = [acc + (f" Protein {g}{j} OS=Homo sapiens" if c["desc"] else "")
                            for j, acc in enumerate(accs)]
                    opt = ""
                    if c["missed"]:
                        opt += f' num_missed_cleavages="{g % 3}"'
                    if c["ntt"]:
                        opt += f' num_tol_term="{2 - g % 3}"'
                    if c["nmatched"]:
                        opt += f' num_matched_peptides="{10 + 5 * g}"'
                    x.append(f'<search_hit hit_rank="{h + 1}" peptide="{pep}" peptide_prev_aa="K" '
                             f'peptide_next_aa="A" protein="{attr[0]}" num_tot_proteins="{len(accs)}" '
                             f'calc_neutral_pep_mass="{1200.0 + 3.3 * g:.4f}" massdiff="0.01"{opt} is_rejected="0">')
                    x += [f'<alternative_protein protein="{a}"/>' for a in attr[1:]]
                    if mods:
                        x.append("<modification_info>")
                        x += [f'<mod_aminoacid_mass position="{p}" mass="{masses[p]}"/>' for p in mods]
                        x.append("</modification_info>")
                    scores = {"hyperscore": f"{10.5 + 1.25 * g:.3f}", "deltascore": f"{-0.5 - 0.75 * g:.2f}",
                              "nextscore": str(5 + g), "flag": str(g % 2)}
                    mono = {}
                    if c["scores"] != "plain":
                        mono["expect"] = (PV if c["scores"] == "pvalue" else PV_SCI)[g % len(PV)]
                    x += [f'<search_score name="{n}" value="{v}"/>' for n, v in {**scores, **mono}.items()]
                    x.append("</search_hit>")
                    rows.append(dict(
                        ms_data_file=stem + ".mzML", scan=scan, charge=charge, ret_time=float(rt),
                        exp_mass=float(mass),
                        peptide="".join(a + (f"[{masses[i + 1]}]" if i + 1 in masses else "")
                                        for i, a in enumerate(pep)),
                        bare_peptide=pep, proteins="\t".join(accs),
                        label=not all(t == "D" for t in prots),
                        scores={n: float(v) for n, v in scores.items()},
                        mono={n: float(v) for n, v in mono.items()}))
                    g += 1
                x += ["</search_result>", "</spectrum_query>"]
                k += 1
            x.append("</msms_run_summary>")
        x.append("</msms_pipeline_analysis>")
        texts.append("\n".join(x) + "\n")
    return texts, rows


def negative(kind, ns=True):
    """Inputs that must be rejected. Returns the text of one file."""
    good = build(dict(ns=ns, hits=2))[0][0]
    if kind.startswith("Percolator"):  # results produced by Percolator: its score names
        return good.replace("</search_hit>", f'<search_score name="{kind}" value="0.01"/>\n</search_hit>')
    xmlns = f' xmlns="{XMLNS}"' if ns else ""
    return {
        "tsv": "SpecId\tLabel\tScanNr\tscore\tPeptide\tProteins\nt_1\t1\t1\t2.5\tK.ACDEFK.A\tsp|P1\n",
        "blah": "Blah\\tblah\\blah\\nblah\\tblah\\blah\n",
        "empty": "",
        "truncated": good[: len(good) // 2],
        "no_runs": f'<?xml version="1.0" encoding="UTF-8"?>\n<msms_pipeline_analysis{xmlns} summary_xml="x"/>\n',
        "other_xml": '<?xml version="1.0" encoding="UTF-8"?>\n<MzIdentML id="x"><cvList/></MzIdentML>\n',
    }[kind]


NEGATIVES = ["Percolator q-Value", "Percolator PEP", "Percolator SVMScore",
             "tsv", "blah", "empty", "truncated", "no_runs", "other_xml"]
