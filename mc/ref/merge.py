"""Reference model of the k-way merge (C14): rows are tuples, the merge is `sorted`.

An *input* is the sequence of its scores in file order; row p of input j is
(id = 100*j + p, score, payload "pay<j>_<p>"), so a file depends only on (j, sequence).
Nothing here imports mokapot.
"""

from __future__ import annotations

import itertools
from collections import Counter

COLS = ["id", "score", "pay"]
SCORES = (-1, 0, 1)  # three levels (every tie structure) including zero and a negative score


FINE = False  # when set, the three score levels are 7 - 3e-5, 7, 7 + 3e-5: steps far above float64 resolution, yet
#               inside the relative band (1e-5) of a sloppy "is close" comparison


#               FINE == "half": levels 8, 8.5, 9, written to text without a decimal point where integral ("8", "8.5",
#               "9"), so that a reader chunk may hold only integers while a later chunk of the same file holds fractions


def score_value(s):
    if FINE == "half":
        return 8.5 + 0.5 * s
    return 7.0 + 3e-5 * s if FINE else float(s)


def rows_of(inputs):
    return [[(100 * j + p, score_value(s), f"pay{j}_{p}") for p, s in enumerate(seq)] for j, seq in enumerate(inputs)]


def is_sorted(scores, desc):
    return all((a >= b) if desc else (a <= b) for a, b in zip(scores, scores[1:]))


def ref_merge(inputs, desc):
    """One admissible result; any order within equal scores is admissible too."""
    return sorted((r for rows in rows_of(inputs) for r in rows), key=lambda r: r[1], reverse=desc)


def verdict(out, inputs, desc):
    """None if `out` is a correct merge of the inputs, else what is wrong."""
    want = Counter(r for rows in rows_of(inputs) for r in rows)
    got = Counter(out)
    if got != want:
        extra = got - want
        if not extra:
            return "row-lost"
        return "row-duplicated" if all(r in want for r in extra) else "row-modified"
    return None if is_sorted([r[1] for r in out], desc) else "not-sorted"


def compositions(n, k):
    if k == 1:
        yield (n,)
        return
    for a in range(1, n - k + 2):
        for rest in compositions(n - a, k - 1):
            yield (a,) + rest


def sorted_seqs(length, desc):
    return list(itertools.combinations_with_replacement(SCORES[::-1] if desc else SCORES, length))


def one_inversion_seqs(length, desc):
    """Sequences with exactly one adjacent pair out of the declared order."""
    return [
        s for s in itertools.product(SCORES, repeat=length)
        if sum((a < b) if desc else (a > b) for a, b in zip(s, s[1:])) == 1
    ]


def families(comp, first, desc):
    """Every family of individually sorted inputs with the given lengths and first input."""
    for rest in itertools.product(*[sorted_seqs(length, desc) for length in comp[1:]]):
        yield (first,) + rest


def negative_families(comp, first, desc):
    """Every family with exactly one adjacent inversion in exactly one input (others sorted)."""
    for bad in range(len(comp)):
        pools = [one_inversion_seqs(length, desc) if j == bad else sorted_seqs(length, desc)
                 for j, length in enumerate(comp)]
        if first not in pools[0]:
            continue
        for rest in itertools.product(*pools[1:]):
            yield (first,) + rest


def first_inputs(length, desc, negative):
    return sorted(set(sorted_seqs(length, desc)) | (set(one_inversion_seqs(length, desc)) if negative else set()))


EIGHT_SINGLES = [
    tuple((s,) for s in seq)
    for seq in ((-1, 0, 1, -1, 0, 1, -1, 0), (0, 0, 0, 0, 0, 0, 0, 0), (1, 1, 0, 0, -1, -1, 1, -1))
]


def nontrivial(inputs, desc):
    """>= 2 inputs whose plain concatenation is not already the merge, or a score shared by two inputs."""
    if len(inputs) < 2:
        return False
    concat = [s for seq in inputs for s in seq]
    shared = any(set(a) & set(b) for a, b in itertools.combinations(inputs, 2))
    return shared or not is_sorted(concat, desc)
