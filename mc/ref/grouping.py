"""Reference for protein grouping (C16), written from the statement, not from the code.

Input of the oracle: `prot_peps` = {protein name: frozenset of its peptides} for every FASTA entry
(empty set = the protein yields no peptide), computed by the harness from the *definition* of the
digest (mc/ref/digest.py), never by the code under test.

What the statement fixes (derivation): every group's peptide set is the peptide set of a member,
every protein with a peptide sits in a group that contains its peptides, and the groups' peptide
sets form an antichain.  Hence the groups' peptide sets are exactly the distinct MAXIMAL peptide
sets (one group each - two groups with equal sets would contain each other), all proteins whose
set equals a maximal set are members of that group, and every other protein is a member of at
least one group whose set contains its own.  The statement does not say that a protein contained in
two maximal sets must be a member of both groups; the oracle does not demand it (a grouping that
picks one of them arbitrarily is caught by the order-independence clause instead).

Observed groups are reconstructed from peptide_map U shared_peptides only: a group is the string
of member names joined by ", "; a shared_peptides value is group strings joined by "; ".  Groups
are compared as SETS of member names - the order of names inside a string is free.
"""

from __future__ import annotations


def maximal_sets(prot_peps):
    sets = {s for s in prot_peps.values() if s}
    return {s for s in sets if not any(s < t for t in sets)}


def ref_grouping(prot_peps):
    """{maximal peptide set: (mandatory members, allowed members)} and {peptide: number of groups}."""
    groups = {}
    for m in maximal_sets(prot_peps):
        must = frozenset(p for p, s in prot_peps.items() if s == m)
        may = frozenset(p for p, s in prot_peps.items() if s and s <= m)
        groups[m] = (must, may)
    count = {}
    for m in groups:
        for pep in m:
            count[pep] = count.get(pep, 0) + 1
    return groups, count


def parse_observed(peptide_map, shared_peptides):
    """-> (groups {frozenset(members): set(peptides)}, unique {pep: frozenset(members)},
    shared {pep: frozenset of frozenset(members)}, problems [(signature, message)])."""
    problems = []
    groups, unique, shared = {}, {}, {}
    for pep, g in peptide_map.items():
        if not isinstance(g, str) or not isinstance(pep, str):
            problems.append(("peptide-map-not-str", f"peptide_map[{pep!r}] = {g!r}"))
            continue
        mem = frozenset(g.split(", "))
        unique[pep] = mem
        groups.setdefault(mem, set()).add(pep)
    for pep, v in shared_peptides.items():
        if not isinstance(v, str) or not isinstance(pep, str):
            problems.append(("shared-peptides-not-str", f"shared_peptides[{pep!r}] = {v!r}"))
            continue
        gs = frozenset(frozenset(g.split(", ")) for g in v.split("; "))
        shared[pep] = gs
        for mem in gs:
            groups.setdefault(mem, set()).add(pep)
    return groups, unique, shared, problems


def canonical(groups, unique, shared):
    """Order-free, JSON-able form of the grouping: member sets, their peptides, and the two maps."""
    return {
        "groups": sorted([sorted(m), sorted(p)] for m, p in groups.items()),
        "unique": sorted([pep, sorted(m)] for pep, m in unique.items()),
        "shared": sorted([pep, sorted(sorted(m) for m in gs)] for pep, gs in shared.items()),
    }


def fmt(mem):
    return "{" + ",".join(sorted(mem)) + "}"


def check_grouping(prot_peps, decoy_prefix, peptide_map, shared_peptides, protein_map):
    """All clauses of the statement that concern ONE result.  Returns (problems, canonical form)."""
    groups, unique, shared, problems = parse_observed(peptide_map, shared_peptides)
    add = lambda sig, msg: problems.append((sig, msg))
    digested = {p for p, s in prot_peps.items() if s}

    # members are proteins of the database
    for mem in groups:
        unknown = sorted(m for m in mem if m not in prot_peps)
        if unknown:
            add("group-member-unknown", f"group {fmt(mem)} names {unknown}, not entries of the FASTA file")

    # every protein that yields a peptide belongs to a group
    in_group = set().union(*groups) if groups else set()
    for p in sorted(digested - in_group):
        add("protein-in-no-group", f"protein {p} yields {sorted(prot_peps[p])} but is a member of no group")

    # a group's peptide set is that of one member and contains the peptides of all members
    for mem, peps in groups.items():
        known = [m for m in mem if m in prot_peps]
        for m in sorted(known):
            if not prot_peps[m] <= peps:
                add("member-peptides-not-in-group",
                    f"group {fmt(mem)} has peptides {sorted(peps)} but its member {m} has {sorted(prot_peps[m])}")
        if known and not any(prot_peps[m] == peps for m in known):
            add("group-peptides-not-a-members",
                f"group {fmt(mem)} has peptides {sorted(peps)}, which is the peptide set of none of its members "
                f"({ {m: sorted(prot_peps[m]) for m in sorted(known)} })")

    # antichain
    gl = sorted(groups.items(), key=lambda kv: sorted(kv[0]))
    for i, (m1, p1) in enumerate(gl):
        for j, (m2, p2) in enumerate(gl):
            if i != j and p1 <= p2:
                add("group-not-maximal",
                    f"peptides {sorted(p1)} of group {fmt(m1)} are contained in {sorted(p2)} of group {fmt(m2)}")

    # unique <=> contained in exactly one group, shared <=> in two or more.  "Contains" is judged on the
    # members' true peptides (not on the maps being checked).
    true_peps = {mem: set().union(*[prot_peps.get(m, frozenset()) for m in mem]) for mem in groups}
    all_peps = set().union(*prot_peps.values()) if prot_peps else set()
    for pep in sorted(set(unique) & set(shared)):
        add("peptide-both-unique-and-shared", f"{pep} is in peptide_map and in shared_peptides")
    for pep, mem in sorted(unique.items()):
        holders = [g for g, tp in true_peps.items() if pep in tp]
        if pep not in all_peps:
            add("unique-peptide-unknown", f"peptide_map holds {pep}, which no protein yields")
        elif mem not in holders:
            add("unique-peptide-not-in-its-group", f"{pep} is mapped to {fmt(mem)}, none of whose members yields it")
        elif len(holders) > 1:
            add("unique-peptide-in-two-groups",
                f"{pep} is recorded as unique to {fmt(mem)} but is contained in {sorted(fmt(h) for h in holders)}")
    for pep, gs in sorted(shared.items()):
        holders = {g for g, tp in true_peps.items() if pep in tp}
        if pep not in all_peps:
            add("shared-peptide-unknown", f"shared_peptides holds {pep}, which no protein yields")
        elif len(holders) < 2:
            add("shared-peptide-in-one-group",
                f"{pep} is recorded as shared ({sorted(fmt(g) for g in gs)}) but is contained in "
                f"{len(holders)} group(s)")
        elif set(gs) != holders:
            add("shared-peptide-groups-wrong",
                f"{pep}: recorded groups {sorted(fmt(g) for g in gs)}, contained in {sorted(fmt(h) for h in holders)}")
    for pep in sorted(all_peps - set(unique) - set(shared)):
        holders = [g for g, tp in true_peps.items() if pep in tp]
        if len(holders) >= 2:
            add("shared-peptide-not-recorded", f"{pep} is contained in {len(holders)} groups but not recorded as shared")
        # a peptide of exactly one group that is not recorded shows up above: the group's set is no member's set

    # independent cross-check against the derived reference (group sets = maximal sets)
    ref, _ = ref_grouping(prot_peps)
    if not problems:
        obs_sets = {frozenset(p) for p in groups.values()}
        if obs_sets != set(ref):
            add("harness-reference-disagrees", f"clauses passed but group sets {sorted(map(sorted, obs_sets))} "
                f"are not the maximal sets {sorted(map(sorted, ref))}")
        for mem, peps in groups.items():
            must, may = ref.get(frozenset(peps), (frozenset(), frozenset()))
            if not (must <= mem <= may | {m for m in mem if not prot_peps.get(m)}):
                add("harness-reference-disagrees", f"group {fmt(mem)}: mandatory {fmt(must)}, allowed {fmt(may)}")

    # each target is paired with the equally named prefixed decoy
    for t in sorted(digested):
        if not t.startswith(decoy_prefix):
            got = protein_map.get(t) if hasattr(protein_map, "get") else None
            if got != decoy_prefix + t:
                add("target-not-paired", f"protein_map[{t!r}] is {got!r}, expected {decoy_prefix + t!r}")

    return problems, canonical(groups, unique, shared)
