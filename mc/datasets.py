"""Dataset builder shared by the pipeline checks.

Writes a generated PSM table as tab-delimited text (.pin/.tab) or Parquet and builds the
OnDiskPsmDataset *directly* from the generator's knowledge of the columns, the way
`read_percolator` does, so that a parser defect (C10's topic) cannot mask other properties.
"""

from __future__ import annotations

from pathlib import Path

import numpy as np
import pandas as pd
import pyarrow as pa
import pyarrow.parquet as pq

RESERVED_ORDER = ["SpecId", "Label", "ScanNr", "ExpMass", "CalcMass", "ret_time", "filename"]
LEVELS = ["ModifiedPeptide", "Precursor", "PeptideGroup"]


def write_table(df: pd.DataFrame, path: Path, row_group_size=None):
    path = Path(path)
    if path.suffix == ".parquet":
        table = pa.Table.from_pandas(df, preserve_index=False)
        pq.write_table(table, path, row_group_size=row_group_size or max(1, len(df)))
    else:
        df.to_csv(path, sep="\t", index=False)
    return path


def make_dataset(df: pd.DataFrame, path: Path, features=None, spectrum=None, row_group_size=None, write=True):
    """Write df and return a fresh OnDiskPsmDataset (never reuse one across brew calls:
    `_split` deletes its spectra_dataframe)."""
    from mokapot.dataset import OnDiskPsmDataset
    from mokapot.tabular_data import TabularDataReader

    path = Path(path)
    if write:
        write_table(df, path, row_group_size)
    columns = list(df.columns)
    low = {c.lower(): c for c in columns}
    specid, label, scan = low["specid"], low["label"], low["scannr"]
    peptide, proteins = low["peptide"], low["proteins"]
    levels = [low[l.lower()] for l in LEVELS if l.lower() in low]
    filename = low.get("filename")
    calcmass = low.get("calcmass")
    expmass = low.get("expmass")
    ret_time = low.get("ret_time")
    nonfeat = [specid, scan, peptide, proteins, label] + levels
    for c in (filename, calcmass, expmass, ret_time):
        if c is not None:
            nonfeat.append(c)
    if spectrum is None:
        spectrum = [c for c in (filename, scan, ret_time, expmass) if c is not None]
    if features is None:
        features = [c for c in columns if c not in nonfeat]
    reader = TabularDataReader.from_path(path)
    col_types = reader.get_column_types()
    file_cols = reader.get_column_names()
    nonfeat_types = [col_types[file_cols.index(c)] for c in nonfeat]
    spectra_df = df[list(spectrum) + [label]].copy().reset_index(drop=True)
    if spectra_df[label].dtype != bool:
        spectra_df[label] = spectra_df[label].astype(int) == 1
    return OnDiskPsmDataset(
        filename=path,
        columns=columns,
        target_column=label,
        spectrum_columns=list(spectrum),
        peptide_column=peptide,
        protein_column=proteins,
        feature_columns=tuple(features),
        metadata_columns=nonfeat,
        metadata_column_types=nonfeat_types,
        level_columns=[peptide] + levels,
        filename_column=filename,
        scan_column=scan,
        specId_column=specid,
        calcmass_column=calcmass,
        expmass_column=expmass,
        rt_column=ret_time,
        charge_column=None,
        spectra_dataframe=spectra_df,
    )


def set_chunks(**kw):
    """Set chunk-size module globals on the modules that *use* them. Returns the old values."""
    import sys
    import mokapot.confidence as conf
    import mokapot.utils as utils
    import mokapot.parsers.pin as pin

    brew = sys.modules["mokapot.brew"]
    where = {
        "CONFIDENCE_CHUNK_SIZE": [conf],
        "MERGE_SORT_CHUNK_SIZE": [utils],
        "CHUNK_SIZE_ROWS_PREDICTION": [brew],
        "CHUNK_SIZE_READ_ALL_DATA": [brew],
        "CHUNK_SIZE_COLUMNS_FOR_DROP_COLUMNS": [pin],
        "CHUNK_SIZE_ROWS_FOR_DROP_COLUMNS": [pin],
    }
    old = {}
    for k, v in kw.items():
        for m in where[k]:
            old[k] = getattr(m, k)
            setattr(m, k, v)
    return old


DEFAULT_CHUNKS = dict(
    CONFIDENCE_CHUNK_SIZE=1000000,
    MERGE_SORT_CHUNK_SIZE=20000,
    CHUNK_SIZE_ROWS_PREDICTION=700000,
    CHUNK_SIZE_READ_ALL_DATA=200000,
    CHUNK_SIZE_COLUMNS_FOR_DROP_COLUMNS=19,
    CHUNK_SIZE_ROWS_FOR_DROP_COLUMNS=2000000,
)


def read_result(path: Path) -> pd.DataFrame:
    path = Path(path)
    if path.suffix == ".parquet":
        return pq.read_table(path).to_pandas()
    return pd.read_csv(path, sep="\t")


def listing(d: Path):
    return sorted(p.name for p in Path(d).iterdir())


# ---------------------------------------------------------------------------
# deterministic PSM tables for the brew-based checks (C02, C05, C07, C08, C11)
# ---------------------------------------------------------------------------
def gen_psms(mults, offset=0, file_idx=0, key_cols=2, label_enc="pm1", scan_base=None, pattern=0, chimeric=False):
    """One PSM table.  `mults[i]` = number of PSMs of spectrum i; scan numbers start at `offset`
    (changes the crc32 order and therefore which groups sit on fold boundaries).
    Column `f_key` has pairwise distinct values (also across files): it is the row key of the
    recording estimators.  About half of the PSMs are targets scoring above every decoy; the rest
    are decoys and low targets.  key_cols: 1 scan; 2 +ExpMass; 3 +ret_time; 4 +filename.
    chimeric: spectra 2k and 2k+1 share scan number and retention time and differ in ExpMass only (one MS2 scan
    searched with two precursor masses), so only the LAST key column tells them apart."""
    rows = []
    r = 0
    for i, m in enumerate(mults):
        scan = (scan_base if scan_base is not None else 0) + offset + (i // 2 if chimeric else i)
        for j in range(m):
            cls = ("H", "D", "H", "L", "H", "D", "H", "H")[(r + pattern) % 8]
            base = {"H": 100.0, "D": 10.0, "L": 10.005}[cls]
            # distinct across files, same class separation; 3 decimals: text round trip is exact
            key = round(base + r * 0.01 + 0.003 * file_idx, 3)
            rows.append(dict(
                SpecId=f"f{file_idx}_s{scan}_{j}" if not chimeric else f"f{file_idx}_s{scan}m{i}_{j}",
                Label=cls != "D",
                ScanNr=scan,
                ExpMass=500.25 + i,
                ret_time=10.0 + 0.5 * (i // 2 if chimeric else i),
                filename=f"run{file_idx}.mzML",
                f_key=key,
                f2=float((r * 7919) % 101) / 10.0,
                Peptide=("T" if cls != "D" else "D") + f"PEP{file_idx}N{r}K",
                Proteins=f"prot{r % 7}",
            ))
            r += 1
    df = pd.DataFrame(rows)
    if label_enc == "pm1":
        df["Label"] = np.where(df["Label"], 1, -1)
    elif label_enc == "01":
        df["Label"] = np.where(df["Label"], 1, 0)
    cols = ["SpecId", "Label", "ScanNr"]
    spectrum = ["ScanNr"]
    if key_cols >= 2:
        cols.append("ExpMass")
        spectrum.append("ExpMass")
    if key_cols >= 3:
        cols.append("ret_time")
        spectrum = ["ScanNr", "ret_time", "ExpMass"]
    if key_cols >= 4:
        cols.append("filename")
        spectrum = ["filename", "ScanNr", "ret_time", "ExpMass"]
    cols += ["f_key", "f2", "Peptide", "Proteins"]
    return df[cols], spectrum


# --- size constants that a module may have (or get): part of the configuration space ---------------------------------
_SIZE_WORDS = ("CHUNK", "SIZE", "BATCH", "BUFFER", "BLOCK")


def size_constants(module):
    """Names of the module's capitalised integer globals that look like a chunk / batch / buffer size.

    mokapot reads such constants from MOKAPOT_* environment variables (mokapot/constants.py); whatever a result
    promises must hold for every value of them, so checks re-run their small families with these set to 1..3.
    A module without such a constant yields [] and the dimension is empty (reported as such in the evidence)."""
    out = []
    for k, v in vars(module).items():
        if k.isupper() and isinstance(v, int) and not isinstance(v, bool) and v > 3 and any(w in k for w in _SIZE_WORDS):
            out.append(k)
    return sorted(out)


class Sized:
    """with Sized(module, 2): ...  - every size constant of the module is 2 inside the block."""

    def __init__(self, module, value, names=None):
        self.m, self.v = module, value
        self.names = size_constants(module) if names is None else names
        self.old = {}

    def __enter__(self):
        for k in self.names:
            if hasattr(self.m, k):  # a replay on a tree without the constant: nothing to set
                self.old[k] = getattr(self.m, k)
                setattr(self.m, k, self.v)
        return self

    def __exit__(self, *a):
        for k, v in self.old.items():
            setattr(self.m, k, v)
