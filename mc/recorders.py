"""Recording estimators, passed through the public `mokapot.Model(estimator, scaler="as-is")` API.

Column 0 of X is a feature with pairwise distinct values: the value itself is the row key.
Every fit(X, y) and every scoring call is logged with its phase: *train* iff a frame of the public
method `Model.fit` is on the Python stack, else *predict*.
`brew` deep-copies the model per fold, so each returned model carries exactly its own log.
"""

from __future__ import annotations

import sys

import numpy as np
from sklearn.base import BaseEstimator, ClassifierMixin


def _phase():
    f = sys._getframe(1)
    while f is not None:
        co = f.f_code
        if co.co_name == "fit" and co.co_filename.endswith("mokapot/model.py"):
            return "train"
        f = f.f_back
    return "predict"


class _Base(ClassifierMixin, BaseEstimator):
    def __init__(self, tag="r", first_only=False, full=False):
        self.tag = tag
        self.first_only = first_only  # weight only column 0: ranking identical to that feature
        self.full = full  # also log the complete feature rows of every scoring call
        self.log_ = []

    # -- learning: class-mean difference (closed form, deterministic, order independent) ----------
    def _learn(self, X, y):
        X = np.asarray(X, dtype=float)
        y = np.asarray(y)
        pos, neg = X[y == 1], X[y == 0]
        if len(pos) == 0 or len(neg) == 0:
            self.w_ = np.zeros(X.shape[1])
            self.w_[0] = 1.0
            self.b_ = 0.0
            return
        mp = np.sort(pos, axis=0).mean(axis=0)  # sort: summation order independent of row order
        mn = np.sort(neg, axis=0).mean(axis=0)
        self.w_ = mp - mn
        if self.first_only:
            self.w_[1:] = 0.0
        self.b_ = -float(self.w_ @ (mp + mn)) / 2.0

    def fit(self, X, y):
        X = np.asarray(X, dtype=float)
        self.log_.append(("fit", _phase(), tuple(X[:, 0].tolist()), tuple(int(v) for v in y), X.shape[1]))
        self.classes_ = np.array([0, 1])
        self._learn(X, y)
        self._after_fit(X, y)
        return self

    def _after_fit(self, X, y):
        pass

    def _raw(self, X):
        X = np.asarray(X, dtype=float)
        return X @ self.w_ + self.b_

    def _score(self, X, phase):
        return self._raw(X)

    def _logged_score(self, X):
        X = np.asarray(X, dtype=float)
        ph = _phase()
        s = np.asarray(self._score(X, ph), dtype=float)
        self.log_.append(("score", ph, tuple(X[:, 0].tolist()), tuple(s.tolist()), X.shape[1])
                         + ((tuple(map(tuple, X.tolist())),) if self.full else ()))
        return s


class LinearRecorder(_Base):
    """Closed-form linear scorer exposing decision_function."""

    def decision_function(self, X):
        return self._logged_score(X)


class OffsetRecorder(LinearRecorder):
    """Decision function with a huge common offset (2e12) and a small spread (multiples of 1/4, exact in float64):
    calibration must still be the exact affine map, which needs the subtraction before the scaling."""

    def _score(self, X, phase):
        raw = self._raw(X)
        return 2.0e12 + np.round(raw * 4.0) / 4.0


class BothRecorder(LinearRecorder):
    """Exposes decision_function AND predict_proba (like LogisticRegression): mokapot scores with the decision
    function and must calibrate those scores like for any other estimator with a decision function."""

    def predict_proba(self, X):
        X = np.asarray(X, dtype=float)
        p = 0.5 + 0.5 * self._raw(X) / (1.0 + np.abs(self._raw(X)))
        return np.column_stack([1 - p, p])


class ProbaRecorder(_Base):
    """Same learner but only predict_proba (no calibration path in brew)."""

    @staticmethod
    def _squash(s):  # strictly increasing map onto (0, 1) without saturation for |s| < 1e7
        return 0.5 + 0.5 * s / (1.0 + np.abs(s))

    def predict_proba(self, X):
        X = np.asarray(X, dtype=float)
        p = self._squash(self._raw(X))
        # log the probability actually returned
        self.log_.append(("score", _phase(), tuple(X[:, 0].tolist()), tuple(p.tolist()), X.shape[1]))
        return np.column_stack([1 - p, p])


class MemorisingRecorder(_Base):
    """Unlimited capacity: +/- large for rows seen in fit (by key and label), else linear."""

    def _after_fit(self, X, y):
        self.mem_ = {float(k): (1.0 if int(v) == 1 else -1.0) for k, v in zip(X[:, 0], y)}

    def _score(self, X, phase):
        base = self._raw(X)
        bump = np.array([self.mem_.get(float(k), 0.0) for k in X[:, 0]])
        return base + 1e4 * bump

    def decision_function(self, X):
        return self._logged_score(X)


class ConstantRecorder(_Base):
    """Cannot learn: every PSM gets the same score."""

    def _score(self, X, phase):
        return np.zeros(len(X))

    def decision_function(self, X):
        return self._logged_score(X)


class InvertedRecorder(_Base):
    """Learns the opposite direction."""

    def _score(self, X, phase):
        return -self._raw(X)

    def decision_function(self, X):
        return self._logged_score(X)


class OverfitRecorder(_Base):
    """Perfect while training (memorised labels), inverted on rows it has not seen (held-out)."""

    def _after_fit(self, X, y):
        self.mem_ = {float(k) for k in X[:, 0]}

    def _score(self, X, phase):
        raw = self._raw(X)
        seen = np.array([float(k) in self.mem_ for k in X[:, 0]])
        return np.where(seen, raw, -raw)

    def decision_function(self, X):
        return self._logged_score(X)


class HalfOverfitRecorder(OverfitRecorder):
    """Perfect on rows it was trained on; on unseen rows a third of the scores is inverted, so the held-out
    ranking is degraded but still calibratable (surrogate for an over-fitted learner)."""

    def _score(self, X, phase):
        raw = self._raw(X)
        seen = np.array([float(k) in self.mem_ for k in X[:, 0]])
        flip = np.array([int(round(abs(float(k)) * 100)) % 3 == 0 for k in X[:, 0]])
        return np.where(seen | ~flip, raw, -raw)


class CoarseRecorder(_Base):
    """Trains, but returns coarse tied scores: every row above the 28th percentile of the scored batch gets 1, the
    rest 0.  The top tie group then holds all high targets plus some decoys, so it is accepted at a lenient FDR and
    rejected at a strict one."""

    def _score(self, X, phase):
        raw = self._raw(X)
        return np.where(raw > np.percentile(raw, 28), 0.9, 0.1)

    def predict_proba(self, X):  # probabilities only: brew does not calibrate them
        p = self._logged_score(X)
        return np.column_stack([1 - p, p])


class SteppedRecorder(LinearRecorder):
    """Learns like the linear recorder but returns a two-level decision function: the best ceil(5n/9) rows of the scored
    batch (by the learned raw score, which is free of ties) get 2, the rest 1.  Targets and decoys are then TIED inside
    each level, so which targets the next training iteration may use is decided by the tie clause of the q-value
    definition (a tie group is accepted or rejected as a whole)."""

    def _score(self, X, phase):
        raw = self._raw(X)
        k = -(-5 * len(raw) // 9)
        rank = np.argsort(np.argsort(-raw, kind="stable"), kind="stable")
        return np.where(rank < k, 2.0, 1.0)


# Hyper-parameter search wrapper: Model.fit hands it the (shuffled) rows and labels once, before the training loop,
# and then continues with the *inner* estimator - so what the search received is logged at module level.
SEARCH_LOG = []


def _const_score(est, X, y):
    return float(len(y))


def make_search(inner):
    from sklearn.model_selection import GridSearchCV

    class RecordingSearch(GridSearchCV):
        def fit(self, X, y=None, **kw):
            Xa = np.asarray(X, dtype=float)
            SEARCH_LOG.append(("search-fit", tuple(Xa[:, 0].tolist()), tuple(int(v) for v in y)))
            return super().fit(X, y, **kw)

    RecordingSearch.__name__ = "GridSearchCV"  # sklearn's clone/get_params use the signature of __init__ only
    return RecordingSearch(inner, param_grid={"tag": ["a", "b"]}, cv=2, refit=False, scoring=_const_score)


ESTIMATORS = {
    "linear": LinearRecorder,
    "both": BothRecorder,
    "offset": OffsetRecorder,
    "proba": ProbaRecorder,
    "memo": MemorisingRecorder,
    "constant": ConstantRecorder,
    "inverted": InvertedRecorder,
    "overfit": OverfitRecorder,
    "halfoverfit": HalfOverfitRecorder,
    "coarse": CoarseRecorder,
    "stepped": SteppedRecorder,
}


def make_model(kind="linear", first_only=False, full=False, **kw):
    from mokapot.model import Model

    kw.setdefault("train_fdr", 0.5)
    kw.setdefault("max_iter", 3)
    if kind.startswith("grid:"):  # e.g. "grid:linear": the recorder wrapped in a hyper-parameter search
        return Model(make_search(ESTIMATORS[kind[5:]](first_only=first_only)), scaler="as-is", **kw)
    return Model(ESTIMATORS[kind](first_only=first_only, full=full), scaler="as-is", **kw)


def fit_log(model):
    return [e for e in model.estimator.log_ if e[0] == "fit"]


def score_log(model, phase=None):
    return [e for e in model.estimator.log_ if e[0] == "score" and (phase is None or e[1] == phase)]
