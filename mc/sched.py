"""E2 - controlled scheduler for mokapot's joblib thread pools (stateless, preemption-bounded).

`Parallel`/`delayed` are replaced (module globals of mokapot.brew, mokapot.confidence,
mokapot.parsers.pin) by a pool whose tasks run in real threads but only while holding the baton.
Scheduling points come from sys.settrace: every line of the task's entry function and every
call/return of any other function defined under <repo>/mokapot ("entry" granularity), only the
lines of the entry function ("task"), or every line of every mokapot frame ("all").  Exploration is CHESS-style iterative context bounding:
default choice = keep running the current task (on completion: lowest id); alternatives are
explored depth-first by re-execution, charging one preemption when switching away from a task that
is still runnable.  One pool invocation (the *focus*) is explored at a time; all other invocations
run inline in submission order (they are barriers).
"""

from __future__ import annotations

import sys
import threading

from mc.core import REPO

MOKA = str(REPO / "mokapot")


class ReplayDivergence(RuntimeError):
    pass


class Execution:
    """Record of one execution: choice points of the focused invocation."""

    def __init__(self, prefix):
        self.prefix = list(prefix)
        self.choices = []  # choice taken at each point
        self.n_enabled = []  # number of enabled tasks at each point
        self.cur_enabled = []  # was the running task still enabled (switching = preemption)
        self.invocations = 0  # number of Parallel(...) invocations seen
        self.focus_tasks = 0  # tasks of the focused invocation
        self.max_inflight = 0
        self.focus_seen = False

    def preemptions_before(self, i):
        return sum(1 for k in range(i) if self.cur_enabled[k] and self.choices[k] != 0)

    @property
    def preemptions(self):
        return self.preemptions_before(len(self.choices))


class _Task:
    def __init__(self, tid, fn, args, kwargs, sched):
        self.tid = tid
        self.fn, self.args, self.kwargs = fn, args, kwargs
        self.sched = sched
        self.sem = threading.Semaphore(0)
        self.done = False
        self.result = None
        self.exc = None
        self.depth = 0
        self.thread = threading.Thread(target=self._main, daemon=True)
        self.free_run = False

    # -- tracing --------------------------------------------------------------------------------
    def _global_trace(self, frame, event, arg):
        if event != "call":
            return None
        if not frame.f_code.co_filename.startswith(MOKA):
            return None
        self.depth += 1
        if self.depth > 1 and self.sched.granularity != "task":
            self._point()  # call of a nested mokapot function
        if self.depth == 1 or self.sched.granularity == "all":
            return self._local_lines
        return self._local_ret

    def _local_lines(self, frame, event, arg):
        if event == "line":
            self._point()
        elif event == "return":
            self.depth -= 1
            if self.depth >= 1 and self.sched.granularity != "task":
                self._point()
        return self._local_lines

    def _local_ret(self, frame, event, arg):
        if event == "return":
            self.depth -= 1
            if self.depth >= 1 and self.sched.granularity != "task":
                self._point()
        return self._local_ret

    def _point(self):
        if self.free_run:
            return
        # hand the baton back to the scheduler and wait to be resumed
        self.sched.baton.release()
        self.sem.acquire()

    def _main(self):
        self.sem.acquire()
        sys.settrace(self._global_trace)
        try:
            self.result = self.fn(*self.args, **self.kwargs)
        except BaseException as e:  # propagated by the scheduler like joblib does
            self.exc = e
        finally:
            sys.settrace(None)
            self.done = True
            self.sched.baton.release()


class ControlledPool:
    """Stands in for joblib.Parallel(n_jobs=..., require="sharedmem")."""

    def __init__(self, run, n_jobs=1, return_as="list", **kw):
        self.run = run
        self.n_jobs = n_jobs if n_jobs and n_jobs > 0 else 1
        self.return_as = return_as  # joblib: "list" | "generator" (submission order) | "generator_unordered"

    def __call__(self, iterable):
        run = self.run
        idx = run.exe.invocations
        run.exe.invocations += 1
        if self.n_jobs == 1 or idx != run.focus:
            out = [fn(*a, **k) for fn, a, k in iterable]
        else:
            out = run.schedule(iterable, self.n_jobs, unordered=self.return_as == "generator_unordered")
        return out if self.return_as == "list" else iter(out)


def delayed(fn):
    def wrap(*a, **k):
        return (fn, a, k)

    return wrap


class Run:
    """One controlled execution."""

    def __init__(self, prefix, focus, granularity="entry", horizon=200000):
        self.exe = Execution(prefix)
        self.focus = focus
        self.granularity = granularity
        self.baton = threading.Semaphore(0)
        self.horizon = horizon

    def Parallel(self, n_jobs=1, **kw):
        return ControlledPool(self, n_jobs=n_jobs, **kw)

    def _choose(self, n_enabled, cur_enabled):
        exe = self.exe
        i = len(exe.choices)
        if i < len(exe.prefix):
            c = exe.prefix[i]
            if c >= n_enabled:
                raise ReplayDivergence(f"point {i}: recorded choice {c} but only {n_enabled} enabled")
        else:
            c = 0
        exe.choices.append(c)
        exe.n_enabled.append(n_enabled)
        exe.cur_enabled.append(cur_enabled)
        if len(exe.choices) > self.horizon:
            raise RuntimeError("horizon exceeded (livelock?)")
        return c

    def schedule(self, iterable, n_jobs, unordered=False):
        exe = self.exe
        exe.focus_seen = True
        it = iter(iterable)
        active, results, next_id = [], {}, 0
        completion = []
        exhausted = False
        first_exc = None

        def fill():
            nonlocal next_id, exhausted
            while not exhausted and len(active) < n_jobs:
                try:
                    fn, a, k = next(it)  # lazy dispatch: generator advanced in the scheduler thread
                except StopIteration:
                    exhausted = True
                    break
                t = _Task(next_id, fn, a, k, self)
                next_id += 1
                active.append(t)
                t.thread.start()

        fill()
        current = None
        while active:
            exe.max_inflight = max(exe.max_inflight, len(active))
            order = sorted(active, key=lambda t: t.tid)
            cur_enabled = current is not None and current in active
            if cur_enabled:
                order.remove(current)
                order.insert(0, current)
            if len(order) == 1:
                t = order[0]
            else:
                t = order[self._choose(len(order), cur_enabled)]
            if first_exc is not None:
                t.free_run = True
            t.sem.release()
            self.baton.acquire()
            if t.done:
                t.thread.join()
                active.remove(t)
                results[t.tid] = t.result
                completion.append(t.tid)
                if t.exc is not None and first_exc is None:
                    first_exc = t.exc
                    exhausted = True  # joblib stops dispatching after a failure
                current = None
                fill()
            else:
                current = t
        exe.focus_tasks = next_id
        if first_exc is not None:
            raise first_exc
        if unordered:  # results are handed over in the order the tasks finished
            return [results[i] for i in completion]
        return [results[i] for i in range(next_id)]


class Patched:
    """Context manager: install a Run's Parallel/delayed into the mokapot modules."""

    def __init__(self, run):
        self.run = run

    def __enter__(self):
        import mokapot.confidence as conf
        import mokapot.parsers.pin as pin

        brew = sys.modules["mokapot.brew"]
        self.mods = [brew, conf, pin]
        self.old = [(m, m.Parallel, m.delayed) for m in self.mods]
        for m in self.mods:
            m.Parallel = self.run.Parallel
            m.delayed = delayed
        return self.run

    def __exit__(self, *a):
        for m, p, d in self.old:
            m.Parallel, m.delayed = p, d


def execute(body, prefix, focus, granularity="entry"):
    """Run body() once under the controlled pool. Returns (Execution, outcome, exception)."""
    run = Run(prefix, focus, granularity)
    out = exc = None
    with Patched(run):
        try:
            out = body()
        except ReplayDivergence:
            raise
        except Exception as e:
            exc = e
    if len(run.exe.choices) < len(prefix):
        raise ReplayDivergence(f"execution ended after {len(run.exe.choices)} points, prefix has {len(prefix)}")
    return run.exe, out, exc


def children(exe, bound):
    """Prefixes of the unexplored alternatives of one execution within the preemption bound."""
    out = []
    for i in range(len(exe.prefix), len(exe.choices)):
        cost = exe.preemptions_before(i) + (1 if exe.cur_enabled[i] else 0)
        if cost > bound:
            continue
        for alt in range(1, exe.n_enabled[i]):
            out.append(exe.choices[:i] + [alt])
    return out


def explore(body, focus, bound, on_exec, granularity="entry", root_prefix=(), cap=None):
    """Depth-first exploration of all schedules of invocation `focus` with <= bound preemptions,
    starting from root_prefix.  on_exec(exe, outcome, exc) is called for every execution.
    Returns (#executions, capped?)."""
    stack = [list(root_prefix)]
    n = 0
    explore.remaining = []
    while stack:
        if cap is not None and n >= cap:
            # budget used up: the unexplored prefixes are handed back (explore.remaining) so that the caller can
            # re-queue them - nothing is dropped
            explore.remaining = stack
            return n, True
        prefix = stack.pop()
        exe, out, exc = execute(body, prefix, focus, granularity)
        n += 1
        on_exec(exe, out, exc)
        stack.extend(reversed(children(exe, bound)))
    return n, False


def count_invocations(body):
    """Dry run with everything inline: number of pool invocations and tasks per invocation."""
    run = Run([], focus=-1)
    with Patched(run):
        try:
            body()
        except Exception:
            pass
    return run.exe.invocations
