"""Keep every *distinct* violation signature of a run, however many cases share a defect.

`Acc.merge` keeps at most 160 violation records; a defect that breaks thousands of cases (e.g. the parser raising for
every file) would fill them before a second, rarer signature arrives.  Workers therefore attach the full record of a
signature only for the first few (and for smaller) cases and merely count the others.  Coordination is through marker
files in the run's scratch directory (created with O_EXCL, removed with the scratch directory by the runner).
"""

from __future__ import annotations

import hashlib
import os
from pathlib import Path

KEEP = 3  # records per signature (plus any strictly smaller case, up to HARD)
HARD = 10


def report(acc, violation, size=0):
    """acc.violation(violation) for the first KEEP cases of a signature and for cases smaller than every recorded
    one; otherwise count only.  `size` orders cases (smaller = simpler)."""
    root = os.environ.get("VERIF_SCRATCH")
    if not root:
        acc.violation(violation)
        return True
    d = Path(root) / "_sigs"
    try:
        d.mkdir(exist_ok=True)
    except OSError:
        acc.violation(violation)
        return True
    h = hashlib.sha1(violation["signature"].encode()).hexdigest()[:16]
    size = int(size)
    try:
        have = [int(n.rsplit("_", 1)[1].split(".")[0]) for n in os.listdir(d) if n.startswith(h + "_")]
    except OSError:
        have = []
    if len(have) >= HARD or (len(have) >= KEEP and size >= min(have)):
        acc.n_violations += 1
        return False
    for k in range(HARD):
        try:
            fd = os.open(d / f"{h}_{size}.{k}", os.O_CREAT | os.O_EXCL | os.O_WRONLY)
            os.close(fd)
            break
        except FileExistsError:
            continue
        except OSError:
            break
    acc.violation(violation)
    return True
