"""Generic driver for E2 (mc/sched.py): explore every pool invocation of a check's body within a preemption bound.

A check module provides `e2_body(case, work) -> body` where body() runs the real code once and returns a hashable
outcome; `case["e2_workers"]` is the worker count the body must pass on (1 = sequential reference).  `plan` runs the
root execution of every invocation in the parent and returns work items (one per unexplored child prefix); `worker`
explores one subtree with a budget and hands the rest back through acc.payload (nothing is dropped).  A differing
schedule is executed a second time and must differ identically before it is reported.
"""

from __future__ import annotations

import importlib
import shutil

from mc import sched
from mc.core import Acc, Violation, worker_scratch, exc_signature

BUDGET = 40


def _h(out, exc):
    return hash(out) if exc is None else "EXC:" + exc_signature(exc)


def plan(ctx, modname, case, bounds, free_workers=(2, 4)):
    mod = importlib.import_module(modname)
    items = []
    work = worker_scratch().sub()
    try:
        body = mod.e2_body(case, work)
        ref_out = mod.e2_body(dict(case, e2_workers=1), work)()
        ref = hash(ref_out)
        ninv = sched.count_invocations(body)
        info = {"case": case, "invocations": ninv, "bounds": {}}
        for focus in range(ninv):
            bound, gran = bounds(focus)
            exe, out, exc = sched.execute(body, [], focus, gran)
            if exe.focus_tasks < 2:
                continue
            ctx.acc.count("e2_executions")
            ctx.acc.count("e2_transitions", len(exe.choices))
            h = _h(out, exc)
            ctx.acc.case(key=(repr(case), focus, ()), nontrivial=exe.max_inflight >= 2, outcome=h, cls="schedule")
            if h != ref:
                ctx.acc.violation(Violation("schedule-changes-result", f"default schedule of pool invocation {focus} differs from the "
                                            "sequential run", {"e2": case, "focus": focus, "schedule": [], "granularity": gran}))
            info["bounds"][focus] = {"bound": bound, "granularity": gran, "tasks": exe.focus_tasks, "points": len(exe.choices)}
            for child in sched.children(exe, bound):
                items.append((modname, case, focus, bound, gran, child, ref))
        for w in free_workers:  # conformance of the pool model: free-running joblib lands in the explored outcome set
            if hash(mod.e2_body(dict(case, e2_workers=w), work)()) != ref:
                ctx.acc.violation(Violation("joblib-free-run-differs", f"real joblib with {w} workers differs from sequential",
                                            {"e2": case, "workers": w}))
            ctx.acc.count("joblib_free_runs")
        return items, info
    finally:
        shutil.rmtree(work, ignore_errors=True)


def worker(item):
    modname, case, focus, bound, gran, root, ref = item
    mod = importlib.import_module(modname)
    acc = Acc()
    work = worker_scratch().sub()
    try:
        body = mod.e2_body(case, work)

        def on_exec(exe, out, exc):
            acc.count("e2_executions")
            acc.count("e2_transitions", len(exe.choices))
            acc.count("e2_preemptions", exe.preemptions)
            if exe.max_inflight >= 2:
                acc.count("e2_executions_with_2plus_inflight")
            h = _h(out, exc)
            acc.case(key=(repr(case), focus, tuple(exe.choices)), nontrivial=exe.max_inflight >= 2, outcome=h, cls="schedule")
            if h != ref:
                exe2, out2, exc2 = sched.execute(body, list(exe.choices), focus, gran)
                if _h(out2, exc2) != h:
                    acc.violation(Violation("harness-nondeterministic-schedule", f"schedule {exe.choices} of invocation {focus} gave two "
                                            "different observations in two executions", {"focus": focus, "schedule": list(exe.choices)}))
                    return
                acc.violation(Violation(
                    "schedule-changes-result" if exc is None else "schedule-crash:" + exc_signature(exc),
                    f"pool invocation {focus}: schedule {exe.choices} ({exe.preemptions} preemption(s)) gives a result different "
                    f"from the sequential run" + (f": {exc}" if exc else "") + (f"; {mod.e2_explain(out)}" if exc is None and hasattr(mod, "e2_explain") else ""),
                    {"e2": case, "focus": focus, "schedule": list(exe.choices), "granularity": gran}))

        n, more = sched.explore(body, focus, bound, on_exec, granularity=gran, root_prefix=root, cap=BUDGET)
        if more:
            acc.payload.extend((modname, case, focus, bound, gran, list(pfx), ref) for pfx in sched.explore.remaining)
    finally:
        shutil.rmtree(work, ignore_errors=True)
    return acc


def run_all(ctx, modname, cases, bounds):
    """plan + drain; returns the per-case infos. Counters land in ctx.acc.extra (e2_executions, e2_transitions ...)."""
    items, infos = [], []
    for case in cases:
        it, info = plan(ctx, modname, case, bounds)
        items += it
        infos.append(info)
    while items:
        before = len(ctx.acc.payload)
        ctx.pmap(worker, items)
        items = ctx.acc.payload[before:]
        del ctx.acc.payload[before:]
    return infos


def replay(modname, case):
    """Re-execute one recorded schedule twice; -> (differs from sequential?, reproducible?, exception)."""
    mod = importlib.import_module(modname)
    work = worker_scratch().sub()
    try:
        e2 = case["e2"]
        ref = hash(mod.e2_body(dict(e2, e2_workers=1), work)())
        body = mod.e2_body(e2, work)
        hs = []
        exc = None
        for _ in range(2):
            try:
                exe, out, exc = sched.execute(body, case["schedule"], case["focus"], case.get("granularity", "entry"))
            except sched.ReplayDivergence as e:
                # the recorded schedule does not exist on this tree (e.g. the pool invocation it was recorded in is gone):
                # nothing to replay, hence nothing reproduced
                print(f"replay: recorded schedule is not realisable on this tree ({e})")
                return False, True, None
            hs.append(_h(out, exc))
        return hs[0] != ref, hs[0] == hs[1], exc
    finally:
        shutil.rmtree(work, ignore_errors=True)
